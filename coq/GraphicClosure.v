(* GraphicClosure.v -- closure properties of graphicness, for the Prop-level notion behind check_graph_cert:

     GraphicP m n M  :=  M is 0/1 and is the fundamental-cycle matrix M(G,T) of some multigraph: there are a forest T
                         (one edge per row, pairwise distinct edge ids) and non-forest edges C (one per column) with
                         fund_cycle_spec m n M T C (column j marks exactly the edges of a simple T-path between the
                         ends of C_j).

   Acyclicity of T is stated as GraphProofs.is_forest T (leaf edges can be stripped until nothing is left).  This is
   what check_graph_cert establishes (acyclic T = true), it implies ~ has_cycle T (is_forest_no_cycle below, hence
   GraphicP_no_cycle gives the definition with ~ has_cycle T), and it is the form for which GraphProofs proves the
   uniqueness of paths.

   Proved (no axioms):
     cert_GraphicP            an accepted certificate yields GraphicP
     GraphicP_cols            (a) any selection of columns: deletion, permutation, duplication
     GraphicP_rowperm         (b) row permutations;  GraphicP_perm / GraphicP_perm_iff: rows and columns (kind 1)
     GraphicP_add_row/_col    (c) adding a zero / unit / copy line (binary series-parallel extension)
     GraphicP_delete_row      (d) deleting ANY row = contracting its forest edge
     GraphicP_reducible_line  (e) kind 4 of judge_rel, both directions, rows and columns
     GraphicP_submat(_gen)    (e) kind 5: submatrices (rows: any duplicate-free list, columns: any list)

   Method.  Everything is done on the column-wise form (GraphicP_iff): a forest T with, for every column, a simple
   T-path whose edge set is the support of the column; the list C is recovered by finite choice.  The two tools are
   (1) forests up to permutation: removal, pendant edges, subdivision and contraction of an edge preserve is_forest
       (is_forest_remove, is_forest_pendant, is_forest_subdivide, is_forest_contract);
   (2) in a forest every trail (walk with pairwise distinct edge ids) is a simple path (forest_trail_simple), so the
       transformed paths only have to be walks with distinct ids.
   All core lemmas are extensional (names ending in _ext): GraphicP m n M only depends on is_binary M and on the entries inside the
   m x n window, so no well-formedness hypothesis is needed (the wf_mat hypotheses of the final statements are unused). *)
From Coq Require Import List ZArith Bool Lia Permutation Arith PeanoNat.
From Cmr Require Import Base Det BaseProofs GraphModel GraphProofs NetworkSpec SpModel RelModel.
From Cmr Require BalancedProofs SpProofs SpProofs2 RelProofs.
Import ListNotations.

(* ------------------------------------------------------------------------------------------ *)
(* 1. Degrees, leaves, forests up to permutation                                                *)
(* ------------------------------------------------------------------------------------------ *)

Lemma degree_perm : forall a b z, Permutation a b -> degree a z = degree b z.
Proof.
  intros a b z H; induction H; try reflexivity.
  - rewrite !degree_cons, IHPermutation; reflexivity.
  - rewrite !degree_cons. lia.
  - congruence.
Qed.

Lemma incident_iff : forall e z, incident e z = true <-> (e_u e = z \/ e_v e = z).
Proof. intros e z. unfold incident. rewrite orb_true_iff, !Nat.eqb_eq. tauto. Qed.

Lemma incident_false_iff : forall e z, incident e z = false <-> (e_u e <> z /\ e_v e <> z).
Proof. intros e z. unfold incident. rewrite orb_false_iff, !Nat.eqb_neq. tauto. Qed.

Lemma contrib_fresh : forall e z, e_u e <> z -> e_v e <> z -> contrib e z = 0.
Proof.
  intros e z A B. unfold contrib. apply Nat.eqb_neq in A. apply Nat.eqb_neq in B.
  rewrite A, B. reflexivity.
Qed.

Lemma degree_fresh : forall L z, (forall e, In e L -> e_u e <> z /\ e_v e <> z) -> degree L z = 0.
Proof.
  induction L as [|a L IH]; intros z H; [reflexivity|].
  rewrite degree_cons, IH.
  - destruct (H a (or_introl eq_refl)) as [A B]. rewrite contrib_fresh; auto.
  - intros e He. apply H. right; exact He.
Qed.

Lemma leaf_cases : forall L e, (degree L (e_u e) = 1 \/ degree L (e_v e) = 1) ->
  exists z, incident e z = true /\ degree L z = 1.
Proof.
  intros L e [H|H]; [exists (e_u e) | exists (e_v e)]; split; auto; [apply incident_u | apply incident_v].
Qed.

Lemma is_forest_cons_z : forall e L z,
  is_loop e = false -> incident e z = true -> degree (e :: L) z = 1 -> is_forest L -> is_forest (e :: L).
Proof.
  intros e L z Hl Hi Hd HF. apply (forest_leaf [] e L); auto. simpl app.
  apply incident_iff in Hi. destruct Hi as [<-|<-]; auto.
Qed.

Lemma is_forest_perm : forall L, is_forest L -> forall L', Permutation L L' -> is_forest L'.
Proof.
  intros L HF; induction HF as [|l1 e l2 Hloop Hdeg HF IH]; intros L' HP.
  - apply Permutation_nil in HP. subst. constructor.
  - assert (Hin : In e L').
    { eapply Permutation_in; [exact HP | apply in_or_app; right; left; reflexivity]. }
    apply in_split in Hin. destruct Hin as [r1 [r2 ->]].
    constructor; auto.
    + rewrite <- !(degree_perm _ _ _ HP). exact Hdeg.
    + apply IH. eapply Permutation_app_inv; exact HP.
Qed.

Lemma is_forest_no_cycle : forall L, is_forest L -> ~ has_cycle L.
Proof.
  intros L HF; induction HF as [|l1 e l2 Hloop Hdeg HF IH]; intros [x [p [Hne [Hw Hnd]]]].
  - destruct p as [|q p]; [congruence|]. apply (is_walk_edges _ _ _ _ Hw q). left; reflexivity.
  - pose proof (leaf_edge_not_on_cycle _ _ _ _ Hw Hnd Hloop Hdeg) as Hnot.
    apply IH. exists x, p. split; [exact Hne|]. split; [|exact Hnd].
    eapply is_walk_incl; [|exact Hw]. intros q Hq.
    apply (in_remove_mid _ l1 l2 e); [eapply is_walk_edges; eauto|].
    intros E. apply Hnot. rewrite <- E. apply in_map. exact Hq.
Qed.

Lemma is_forest_noloop : forall L, is_forest L -> forall e, In e L -> is_loop e = false.
Proof.
  intros L HF; induction HF as [|l1 e l2 Hloop Hdeg HF IH]; intros e0 Hin; [destruct Hin|].
  apply in_mid_iff in Hin. destruct Hin as [->|Hin]; auto.
Qed.

(* removing an edge from a forest *)
Lemma is_forest_remove : forall L, is_forest L -> forall e R, Permutation L (e :: R) -> is_forest R.
Proof.
  intros L HF; induction HF as [|l1 l l2 Hloop Hdeg HF IH]; intros e R HP.
  - exfalso. eapply Permutation_nil_cons; exact HP.
  - destruct (edge_eq_dec l e) as [E|E].
    + subst l. apply Permutation_sym in HP. apply Permutation_cons_app_inv in HP.
      apply (is_forest_perm (l1 ++ l2)); [exact HF | apply Permutation_sym; exact HP].
    + assert (Hin : In e (l1 ++ l2)).
      { apply (in_remove_mid _ l1 l2 l); [|congruence].
        eapply Permutation_in; [apply Permutation_sym; exact HP | left; reflexivity]. }
      apply in_split in Hin. destruct Hin as [r1 [r2 E12]].
      assert (HP1 : Permutation (l1 ++ l2) (e :: r1 ++ r2)).
      { rewrite E12. apply Permutation_sym, Permutation_middle. }
      assert (HP2 : Permutation (l :: r1 ++ r2) R).
      { apply (Permutation_cons_inv (a := e)).
        apply perm_trans with (l :: e :: r1 ++ r2); [apply perm_swap|].
        apply perm_trans with (l :: l1 ++ l2); [apply perm_skip, Permutation_sym, HP1|].
        apply perm_trans with (l1 ++ l :: l2); [apply Permutation_middle | exact HP]. }
      specialize (IH e (r1 ++ r2) HP1).
      apply (is_forest_perm (l :: r1 ++ r2)); [|exact HP2].
      destruct (leaf_cases _ _ Hdeg) as [z [Hz Hd]].
      apply (is_forest_cons_z _ _ z); auto.
      assert (Hdd : degree (l1 ++ l :: l2) z = contrib e z + degree (l :: r1 ++ r2) z).
      { rewrite (degree_perm _ _ z (Permutation_sym (Permutation_middle l1 l2 l))).
        rewrite degree_cons. rewrite (degree_perm _ _ z HP1). rewrite !degree_cons. lia. }
      pose proof (contrib_incident l z Hz). rewrite degree_cons in *. lia.
Qed.

(* a pendant edge: one end occurs nowhere else *)
Lemma is_forest_pendant : forall T e,
  is_forest T -> e_u e <> e_v e -> (forall a, In a T -> e_u a <> e_v e /\ e_v a <> e_v e) ->
  is_forest (e :: T).
Proof.
  intros T e HF Hne Hfresh. apply (is_forest_cons_z _ _ (e_v e)); auto.
  - unfold is_loop. apply Nat.eqb_neq. exact Hne.
  - apply incident_v.
  - rewrite degree_cons, (degree_fresh T _ Hfresh). unfold contrib.
    rewrite Nat.eqb_refl. apply Nat.eqb_neq in Hne. rewrite Hne. reflexivity.
Qed.

(* ------------------------------------------------------------------------------------------ *)
(* 2. Renaming nodes                                                                            *)
(* ------------------------------------------------------------------------------------------ *)

Definition ren (r : nat -> nat) (e : edge) : edge :=
  {| e_id := e_id e; e_u := r (e_u e); e_v := r (e_v e) |}.

Lemma contrib_ren : forall r e z,
  (r (e_u e) = r z -> e_u e = z) -> (r (e_v e) = r z -> e_v e = z) ->
  contrib (ren r e) (r z) = contrib e z.
Proof.
  intros r e z A B. unfold contrib, ren; simpl.
  destruct (Nat.eqb_spec (r (e_u e)) (r z)) as [E1|E1]; destruct (Nat.eqb_spec (e_u e) z) as [E1'|E1'];
  destruct (Nat.eqb_spec (r (e_v e)) (r z)) as [E2|E2]; destruct (Nat.eqb_spec (e_v e) z) as [E2'|E2'];
  try reflexivity; exfalso; auto; congruence.
Qed.

Lemma degree_ren : forall r L z,
  (forall e, In e L -> (r (e_u e) = r z -> e_u e = z) /\ (r (e_v e) = r z -> e_v e = z)) ->
  degree (map (ren r) L) (r z) = degree L z.
Proof.
  intros r; induction L as [|a L IH]; intros z H; [reflexivity|].
  simpl map. rewrite !degree_cons, IH.
  - destruct (H a (or_introl eq_refl)) as [A B]. rewrite contrib_ren; auto.
  - intros e He. apply H. right; exact He.
Qed.

Definition inj_on (r : nat -> nat) (L : list edge) : Prop :=
  forall e e' x y, In e L -> In e' L -> incident e x = true -> incident e' y = true -> r x = r y -> x = y.

Lemma is_forest_ren_inj : forall r L, is_forest L -> inj_on r L -> is_forest (map (ren r) L).
Proof.
  intros r L HF; induction HF as [|l1 e l2 Hloop Hdeg HF IH]; intros Hinj; [constructor|].
  assert (He : In e (l1 ++ e :: l2)) by (apply in_or_app; right; left; reflexivity).
  rewrite map_app. simpl map. apply forest_leaf.
  - unfold is_loop in *. simpl. apply Nat.eqb_neq. apply Nat.eqb_neq in Hloop. intros E. apply Hloop.
    apply (Hinj e e); auto; [apply incident_u | apply incident_v].
  - replace (map (ren r) l1 ++ ren r e :: map (ren r) l2) with (map (ren r) (l1 ++ e :: l2))
      by (rewrite map_app; reflexivity).
    simpl.
    destruct Hdeg as [H|H]; [left|right]; rewrite degree_ren; auto; intros e' He'; split; intros E.
    + apply (Hinj e' e); auto; [apply incident_u | apply incident_u].
    + apply (Hinj e' e); auto; [apply incident_v | apply incident_u].
    + apply (Hinj e' e); auto; [apply incident_u | apply incident_v].
    + apply (Hinj e' e); auto; [apply incident_v | apply incident_v].
  - rewrite <- map_app. apply IH.
    intros a b x y Ha Hb. apply Hinj; apply in_mid_iff; right; assumption.
Qed.

(* contraction of the edge e: the renaming identifies (at most) the two ends of e *)
Lemma is_forest_contract : forall T, is_forest T -> forall e R r,
  Permutation T (e :: R) ->
  (forall x y, r x = r y -> x = y \/ (incident e x = true /\ incident e y = true)) ->
  is_forest (map (ren r) R).
Proof.
  intros T HF; induction HF as [|l1 l l2 Hloop Hdeg HF IH]; intros e R r HP Hr.
  - exfalso. eapply Permutation_nil_cons; exact HP.
  - destruct (leaf_cases _ _ Hdeg) as [z [Hz Hd]].
    destruct (edge_eq_dec l e) as [E|E].
    + subst l. apply Permutation_sym in HP. apply Permutation_cons_app_inv in HP.
      apply (is_forest_perm (map (ren r) (l1 ++ l2)));
        [|apply Permutation_map; apply Permutation_sym; exact HP].
      apply is_forest_ren_inj; auto.
      assert (Hd0 : degree (l1 ++ l2) z = 0).
      { rewrite degree_app, degree_cons in Hd. rewrite degree_app.
        pose proof (contrib_incident _ _ Hz). lia. }
      intros a b x y Ha Hb Hx Hy Exy.
      destruct (Hr x y Exy) as [?|[Ix Iy]]; auto.
      destruct (Nat.eq_dec x y) as [?|Nxy]; auto. exfalso.
      pose proof (degree0_not_incident _ _ _ Hd0 Ha) as [A1 A2].
      pose proof (degree0_not_incident _ _ _ Hd0 Hb) as [B1 B2].
      apply incident_iff in Hx, Hy, Ix, Iy, Hz.
      assert (x <> z) by (destruct Hx; congruence).
      assert (y <> z) by (destruct Hy; congruence).
      destruct Ix, Iy, Hz; congruence.
    + assert (Hin : In e (l1 ++ l2)).
      { apply (in_remove_mid _ l1 l2 l); [|congruence].
        eapply Permutation_in; [apply Permutation_sym; exact HP | left; reflexivity]. }
      assert (Hel : In e (l1 ++ l :: l2)) by (apply in_mid_iff; right; exact Hin).
      assert (Hll : In l (l1 ++ l :: l2)) by (apply in_mid_iff; left; reflexivity).
      apply in_split in Hin. destruct Hin as [r1 [r2 E12]].
      assert (HP1 : Permutation (l1 ++ l2) (e :: r1 ++ r2)).
      { rewrite E12. apply Permutation_sym, Permutation_middle. }
      assert (HP2 : Permutation (l :: r1 ++ r2) R).
      { apply (Permutation_cons_inv (a := e)).
        apply perm_trans with (l :: e :: r1 ++ r2); [apply perm_swap|].
        apply perm_trans with (l :: l1 ++ l2); [apply perm_skip, Permutation_sym, HP1|].
        apply perm_trans with (l1 ++ l :: l2); [apply Permutation_middle | exact HP]. }
      specialize (IH e (r1 ++ r2) r HP1 Hr).
      apply (is_forest_perm (map (ren r) (l :: r1 ++ r2))); [|apply Permutation_map; exact HP2].
      simpl map.
      assert (Hze : incident e z = false).
      { destruct (incident e z) eqn:Ie; auto. exfalso.
        pose proof (degree_two (l1 ++ l :: l2) l e z Hll Hel E Hz Ie). lia. }
      assert (Hrz : forall x, r x = r z -> x = z).
      { intros x Ex. destruct (Hr x z Ex) as [?|[_ I]]; auto. congruence. }
      apply (is_forest_cons_z _ _ (r z)).
      * unfold is_loop, ren; simpl. apply Nat.eqb_neq. intros Eab.
        unfold is_loop in Hloop; apply Nat.eqb_neq in Hloop.
        destruct (Hr _ _ Eab) as [?|[Ia Ib]]; [contradiction|].
        apply incident_iff in Hz. destruct Hz as [Q|Q]; rewrite Q in *; congruence.
      * apply incident_iff. simpl. apply incident_iff in Hz. destruct Hz as [<-|<-]; auto.
      * change (ren r l :: map (ren r) (r1 ++ r2)) with (map (ren r) (l :: r1 ++ r2)).
        rewrite degree_ren; [|intros; split; intros; apply Hrz; auto].
        assert (Hdd : degree (l1 ++ l :: l2) z = contrib e z + degree (l :: r1 ++ r2) z).
        { rewrite (degree_perm _ _ z (Permutation_sym (Permutation_middle l1 l2 l))).
          rewrite degree_cons. rewrite (degree_perm _ _ z HP1). rewrite !degree_cons. lia. }
        pose proof (contrib_incident l z Hz). rewrite degree_cons in *. lia.
      * exact IH.
Qed.

Ltac contrib_tac :=
  unfold contrib; simpl;
  repeat match goal with |- context[Nat.eqb ?a ?b] => destruct (Nat.eqb_spec a b) end;
  try lia; try congruence.

(* subdivision of the edge e0 by a fresh node z *)
Lemma is_forest_subdivide : forall T, is_forest T -> forall e0 R z id2,
  Permutation T (e0 :: R) -> (forall e, In e T -> e_u e <> z /\ e_v e <> z) ->
  is_forest ({| e_id := e_id e0; e_u := e_u e0; e_v := z |} ::
             {| e_id := id2; e_u := z; e_v := e_v e0 |} :: R).
Proof.
  intros T HF; induction HF as [|l1 l l2 Hloop Hdeg HF IH]; intros e0 R z id2 HP Hfr.
  - exfalso. eapply Permutation_nil_cons; exact HP.
  - destruct (leaf_cases _ _ Hdeg) as [w [Hw Hd]].
    assert (Hll : In l (l1 ++ l :: l2)) by (apply in_mid_iff; left; reflexivity).
    set (e1 := {| e_id := e_id e0; e_u := e_u e0; e_v := z |}).
    set (e2 := {| e_id := id2; e_u := z; e_v := e_v e0 |}).
    destruct (edge_eq_dec l e0) as [E|E].
    + subst l. apply Permutation_sym in HP. apply Permutation_cons_app_inv in HP.
      assert (HFR : is_forest R) by (apply (is_forest_perm (l1 ++ l2)); [exact HF | apply Permutation_sym; exact HP]).
      destruct (Hfr e0 Hll) as [Z1 Z2].
      unfold is_loop in Hloop. apply Nat.eqb_neq in Hloop.
      assert (Hd0 : degree R w = 0).
      { rewrite (degree_perm _ _ w HP). rewrite degree_app, degree_cons in Hd. rewrite degree_app.
        pose proof (contrib_incident _ _ Hw). lia. }
      assert (Hdz : degree R z = 0).
      { apply degree_fresh. intros a Ha. apply Hfr. apply in_mid_iff. right.
        eapply Permutation_in; [exact HP | exact Ha]. }
      apply incident_iff in Hw. destruct Hw as [Hw|Hw]; subst w.
      * (* e1 is a leaf at e_u e0, then e2 at z *)
        apply (is_forest_cons_z _ _ (e_u e0)).
        -- unfold is_loop; simpl. apply Nat.eqb_neq. exact Z1.
        -- apply incident_iff. left; reflexivity.
        -- rewrite !degree_cons, Hd0. unfold e1, e2. contrib_tac.
        -- apply (is_forest_cons_z _ _ z); auto.
           ++ unfold is_loop; simpl. apply Nat.eqb_neq. congruence.
           ++ apply incident_iff. left; reflexivity.
           ++ rewrite !degree_cons, Hdz. unfold e2. contrib_tac.
      * apply (is_forest_perm (e2 :: e1 :: R)); [|apply perm_swap].
        apply (is_forest_cons_z _ _ (e_v e0)).
        -- unfold is_loop; simpl. apply Nat.eqb_neq. congruence.
        -- apply incident_iff. right; reflexivity.
        -- rewrite !degree_cons, Hd0. unfold e1, e2. contrib_tac.
        -- apply (is_forest_cons_z _ _ z); auto.
           ++ unfold is_loop; simpl. apply Nat.eqb_neq. exact Z1.
           ++ apply incident_iff. right; reflexivity.
           ++ rewrite !degree_cons, Hdz. unfold e1. contrib_tac.
    + assert (Hin : In e0 (l1 ++ l2)).
      { apply (in_remove_mid _ l1 l2 l); [|congruence].
        eapply Permutation_in; [apply Permutation_sym; exact HP | left; reflexivity]. }
      assert (Hel : In e0 (l1 ++ l :: l2)) by (apply in_mid_iff; right; exact Hin).
      apply in_split in Hin. destruct Hin as [r1 [r2 E12]].
      assert (HP1 : Permutation (l1 ++ l2) (e0 :: r1 ++ r2)).
      { rewrite E12. apply Permutation_sym, Permutation_middle. }
      assert (HP2 : Permutation (l :: r1 ++ r2) R).
      { apply (Permutation_cons_inv (a := e0)).
        apply perm_trans with (l :: e0 :: r1 ++ r2); [apply perm_swap|].
        apply perm_trans with (l :: l1 ++ l2); [apply perm_skip, Permutation_sym, HP1|].
        apply perm_trans with (l1 ++ l :: l2); [apply Permutation_middle | exact HP]. }
      assert (Hfr' : forall e, In e (l1 ++ l2) -> e_u e <> z /\ e_v e <> z).
      { intros a Ha. apply Hfr. apply in_mid_iff. right; exact Ha. }
      specialize (IH e0 (r1 ++ r2) z id2 HP1 Hfr'). fold e1 e2 in IH.
      apply (is_forest_perm (l :: e1 :: e2 :: r1 ++ r2)).
      2:{ apply perm_trans with (e1 :: l :: e2 :: r1 ++ r2); [apply perm_swap|]. apply perm_skip.
          apply perm_trans with (e2 :: l :: r1 ++ r2); [apply perm_swap|]. apply perm_skip. exact HP2. }
      assert (Hze : incident e0 w = false).
      { destruct (incident e0 w) eqn:Ie; auto. exfalso.
        pose proof (degree_two (l1 ++ l :: l2) l e0 w Hll Hel E Hw Ie). lia. }
      apply incident_false_iff in Hze. destruct Hze as [W1 W2].
      assert (Hwz : w <> z).
      { destruct (Hfr l Hll) as [Z1 Z2]. apply incident_iff in Hw. destruct Hw; congruence. }
      apply (is_forest_cons_z _ _ w); auto.
      assert (Hdd : degree (l1 ++ l :: l2) w = contrib e0 w + degree (l :: r1 ++ r2) w).
      { rewrite (degree_perm _ _ w (Permutation_sym (Permutation_middle l1 l2 l))).
        rewrite degree_cons. rewrite (degree_perm _ _ w HP1). rewrite !degree_cons. lia. }
      pose proof (contrib_incident l w Hw).
      assert (C1 : contrib e1 w = 0) by (apply contrib_fresh; simpl; congruence).
      assert (C2 : contrib e2 w = 0) by (apply contrib_fresh; simpl; congruence).
      rewrite !degree_cons in *. lia.
Qed.

(* ------------------------------------------------------------------------------------------ *)
(* 3. Trails in a forest are simple paths                                                       *)
(* ------------------------------------------------------------------------------------------ *)

Lemma walk_split_at_node : forall L x y p, is_walk L x y p -> forall z, In z (walk_nodes x p) ->
  exists p1 p2, p = p1 ++ p2 /\ is_walk L x z p1 /\ is_walk L z y p2.
Proof.
  intros L x y p H; induction H as [x|x y e fwd p Hin Hs Hw IH]; intros z Hz.
  - simpl in Hz. destruct Hz as [<-|[]]. exists [], []. repeat split; constructor.
  - simpl in Hz. destruct Hz as [<-|Hz].
    + exists [], ((e, fwd) :: p). repeat split; [constructor | constructor; auto].
    + destruct (IH z Hz) as [p1 [p2 [E [H1 H2]]]].
      exists ((e, fwd) :: p1), p2. repeat split; [rewrite E; reflexivity | constructor; auto | exact H2].
Qed.

Lemma trail_simple : forall L x y p, ~ has_cycle L -> is_walk L x y p -> NoDup (step_ids p) ->
  NoDup (walk_nodes x p).
Proof.
  intros L x y p Hnc H; induction H as [x|x y e fwd p Hin Hs Hw IH]; intros Hnd.
  - simpl. constructor; [intros [] | constructor].
  - simpl. simpl in Hnd. constructor.
    + intros Hx. destruct (walk_split_at_node _ _ _ _ Hw x Hx) as [p1 [p2 [E [H1 H2]]]].
      apply Hnc. exists x, ((e, fwd) :: p1). split; [discriminate|]. split.
      * constructor; auto.
      * subst p. change (NoDup (step_ids (((e, fwd) :: p1) ++ p2))) in Hnd.
        unfold step_ids in Hnd. rewrite map_app in Hnd. apply NoDup_app_l in Hnd. exact Hnd.
    + apply IH. apply NoDup_cons_iff in Hnd. apply Hnd.
Qed.

Lemma simple_path_NoDup_edges : forall L x y p, is_walk L x y p -> NoDup (walk_nodes x p) ->
  NoDup (map fst p).
Proof.
  intros L x y p H; induction H as [x|x y e fwd p Hin Hs Hw IH]; intros Hnd; simpl; [constructor|].
  simpl in Hnd. apply NoDup_cons_iff in Hnd. destruct Hnd as [Hx Hnd]. constructor; auto.
  intros He. apply in_map_iff in He. destruct He as [[e' b'] [E He]]. simpl in E; subst e'.
  destruct (walk_step_nodes _ _ _ _ Hw _ _ He) as [A B].
  apply Hx. destruct fwd; subst x; assumption.
Qed.

Lemma simple_path_NoDup_ids : forall T x y p, NoDup (map e_id T) -> simple_path T x y p ->
  NoDup (step_ids p).
Proof.
  intros T x y p HT [Hw Hnd].
  pose proof (simple_path_NoDup_edges _ _ _ _ Hw Hnd) as He.
  unfold step_ids. rewrite <- (map_map fst e_id). apply NoDup_map_inj_in; auto.
  intros a b Ha Hb E. apply (NoDup_map_inj _ _ e_id T); auto.
  - apply in_map_iff in Ha. destruct Ha as [q [<- Hq]]. eapply is_walk_edges; eauto.
  - apply in_map_iff in Hb. destruct Hb as [q [<- Hq]]. eapply is_walk_edges; eauto.
Qed.

Lemma forest_trail_simple : forall T x y p, is_forest T -> is_walk T x y p -> NoDup (step_ids p) ->
  simple_path T x y p.
Proof.
  intros T x y p HF Hw Hnd. split; auto. eapply trail_simple; eauto. apply is_forest_no_cycle; exact HF.
Qed.

(* ------------------------------------------------------------------------------------------ *)
(* 4. Index bookkeeping: skipping one index, inserting into / removing from a list              *)
(* ------------------------------------------------------------------------------------------ *)

Definition skipidx (k i : nat) : nat := if i <? k then i else S i.
Definition unskip (k i : nat) : nat := if i <? k then i else i - 1.

Lemma skip_unskip : forall k i, i <> k -> skipidx k (unskip k i) = i.
Proof.
  intros k i H. unfold skipidx, unskip.
  destruct (Nat.ltb_spec i k); [destruct (Nat.ltb_spec i k); lia|].
  destruct (Nat.ltb_spec (i - 1) k); lia.
Qed.

Lemma unskip_skip : forall k i, unskip k (skipidx k i) = i.
Proof.
  intros k i. unfold skipidx, unskip.
  destruct (Nat.ltb_spec i k); [destruct (Nat.ltb_spec i k); lia|].
  destruct (Nat.ltb_spec (S i) k); lia.
Qed.

Lemma skipidx_neq : forall k i, skipidx k i <> k.
Proof. intros k i. unfold skipidx. destruct (Nat.ltb_spec i k); lia. Qed.

Lemma skipidx_lt : forall m k i, k < m -> i < m - 1 -> skipidx k i < m.
Proof. intros m k i H1 H2. unfold skipidx. destruct (Nat.ltb_spec i k); lia. Qed.

Lemma skipidx_inj : forall k i i', skipidx k i = skipidx k i' -> i = i'.
Proof.
  intros k i i'. unfold skipidx. destruct (Nat.ltb_spec i k); destruct (Nat.ltb_spec i' k); lia.
Qed.

Lemma unskip_lt : forall m k i, k < m -> i < m -> i <> k -> unskip k i < m - 1.
Proof. intros m k i H1 H2 H3. unfold unskip. destruct (Nat.ltb_spec i k); lia. Qed.

Lemma iota_S : forall k s, iota (S s) k = map S (iota s k).
Proof. induction k as [|k IH]; intros s; simpl; [reflexivity|]. rewrite IH. reflexivity. Qed.

Lemma filter_all : forall (A : Type) (f : A -> bool) l, (forall x, In x l -> f x = true) -> filter f l = l.
Proof.
  intros A f; induction l as [|a l IH]; intros H; simpl; [reflexivity|].
  rewrite (H a (or_introl eq_refl)), IH; auto. intros x Hx. apply H. right; exact Hx.
Qed.

Lemma filter_neq_iota : forall len s d, s <= d < s + len ->
  filter (fun i => negb (Nat.eqb i d)) (iota s len) = map (skipidx d) (iota s (len - 1)).
Proof.
  induction len as [|len IH]; intros s d H; [lia|].
  replace (S len - 1) with len by lia. cbn [iota filter].
  destruct (Nat.eqb_spec s d) as [E|E]; simpl negb.
  - subst s. rewrite filter_all.
    + rewrite iota_S. apply map_ext_in. intros i Hi. apply in_iota in Hi.
      unfold skipidx. destruct (Nat.ltb_spec i d); lia.
    + intros x Hx. apply in_iota in Hx. destruct (Nat.eqb_spec x d); [lia | reflexivity].
  - rewrite IH by lia. destruct len as [|len]; [lia|]. replace (S len - 1) with len by lia.
    cbn [iota map]. f_equal. unfold skipidx. destruct (Nat.ltb_spec s d); lia.
Qed.

Lemma keep_line_eq : forall m k, k < m -> keep_line m k = map (skipidx k) (iota 0 (m - 1)).
Proof. intros m k H. unfold keep_line. apply filter_neq_iota. lia. Qed.

Lemma nth_map_iota : forall (f : nat -> nat) k i, i < k -> nth i (map f (iota 0 k)) 0 = f i.
Proof.
  intros f k i H. rewrite (nth_indep _ 0 (f 0)) by (rewrite map_length, length_iota; exact H).
  rewrite map_nth. rewrite RelProofs.nth_iota by exact H. reflexivity.
Qed.

Lemma nth_keep_line : forall m k i, k < m -> i < m - 1 -> nth i (keep_line m k) 0 = skipidx k i.
Proof. intros m k i Hk Hi. rewrite keep_line_eq by exact Hk. apply nth_map_iota. exact Hi. Qed.

Lemma get_drop_row' : forall m n M k i j, k < m -> i < m - 1 -> j < n ->
  get (submat M (keep_line m k) (iota 0 n)) i j = get M (skipidx k i) j.
Proof.
  intros m n M k i j Hk Hi Hj.
  rewrite SpProofs2.get_submat by (rewrite ?RelProofs.length_keep_line, ?length_iota; assumption).
  rewrite nth_keep_line, RelProofs.nth_iota by assumption. reflexivity.
Qed.

Lemma get_drop_col' : forall m n M k i j, k < n -> i < m -> j < n - 1 ->
  get (submat M (iota 0 m) (keep_line n k)) i j = get M i (skipidx k j).
Proof.
  intros m n M k i j Hk Hi Hj.
  rewrite SpProofs2.get_submat by (rewrite ?RelProofs.length_keep_line, ?length_iota; assumption).
  rewrite nth_keep_line, RelProofs.nth_iota by assumption. reflexivity.
Qed.

Definition insert_at {A : Type} (k : nat) (x : A) (l : list A) : list A := firstn k l ++ x :: skipn k l.
Definition remove_at {A : Type} (k : nat) (l : list A) : list A := firstn k l ++ skipn (S k) l.

Lemma insert_at_S : forall (A : Type) k (x a : A) l, insert_at (S k) x (a :: l) = a :: insert_at k x l.
Proof. reflexivity. Qed.

Lemma nth_insert_skip : forall (A : Type) (d x : A) k l i, k <= length l ->
  nth (skipidx k i) (insert_at k x l) d = nth i l d.
Proof.
  intros A d x; induction k as [|k IH]; intros l i Hk.
  - reflexivity.
  - destruct l as [|a l]; [simpl in Hk; lia|]. rewrite insert_at_S.
    destruct i as [|i]; [reflexivity|].
    replace (skipidx (S k) (S i)) with (S (skipidx k i)).
    + simpl. apply IH. simpl in Hk. lia.
    + unfold skipidx. destruct (Nat.ltb_spec i k); destruct (Nat.ltb_spec (S i) (S k)); lia.
Qed.

Lemma nth_insert_k : forall (A : Type) (d x : A) k l, k <= length l -> nth k (insert_at k x l) d = x.
Proof.
  intros A d x; induction k as [|k IH]; intros l Hk; [reflexivity|].
  destruct l as [|a l]; [simpl in Hk; lia|]. rewrite insert_at_S. simpl. apply IH. simpl in Hk. lia.
Qed.

Lemma perm_insert : forall (A : Type) k (x : A) l, Permutation (insert_at k x l) (x :: l).
Proof.
  intros A k x l. unfold insert_at. apply Permutation_sym.
  rewrite <- (firstn_skipn k l) at 1. apply Permutation_middle.
Qed.

Lemma length_insert : forall (A : Type) k (x : A) l, length (insert_at k x l) = S (length l).
Proof. intros A k x l. rewrite (Permutation_length (perm_insert A k x l)). reflexivity. Qed.

Lemma split_nth : forall (A : Type) (d : A) k l, k < length l ->
  l = firstn k l ++ nth k l d :: skipn (S k) l.
Proof.
  intros A d; induction k as [|k IH]; intros l Hk; destruct l as [|a l]; simpl in Hk; try lia.
  - reflexivity.
  - simpl. f_equal. apply IH. lia.
Qed.

Lemma perm_remove : forall (A : Type) (d : A) k l, k < length l ->
  Permutation l (nth k l d :: remove_at k l).
Proof.
  intros A d k l Hk. unfold remove_at. rewrite (split_nth A d k l Hk) at 1.
  apply Permutation_sym, Permutation_middle.
Qed.

Lemma nth_remove : forall (A : Type) (d : A) k l i, nth i (remove_at k l) d = nth (skipidx k i) l d.
Proof.
  intros A d; induction k as [|k IH]; intros l i.
  - destruct l as [|a l]; [destruct i; reflexivity|]. reflexivity.
  - destruct l as [|a l].
    { change (remove_at (S k) (@nil A)) with (@nil A). destruct i; destruct (skipidx (S k) _); reflexivity. }
    change (remove_at (S k) (a :: l)) with (a :: remove_at k l).
    destruct i as [|i]; [reflexivity|].
    replace (skipidx (S k) (S i)) with (S (skipidx k i)).
    + simpl. apply IH.
    + unfold skipidx. destruct (Nat.ltb_spec i k); destruct (Nat.ltb_spec (S i) (S k)); lia.
Qed.

Lemma length_remove : forall (A : Type) k (l : list A), k < length l -> length (remove_at k l) = length l - 1.
Proof.
  intros A k l Hk. destruct l as [|a l]; [simpl in Hk; lia|].
  pose proof (Permutation_length (perm_remove A a k (a :: l) Hk)) as H. simpl in H. simpl. lia.
Qed.

Lemma bounded_dec : forall (P : nat -> Prop) n, (forall j, P j \/ ~ P j) ->
  (exists j, j < n /\ P j) \/ (forall j, j < n -> ~ P j).
Proof.
  intros P n Hdec; induction n as [|n IH].
  - right. intros j Hj. lia.
  - destruct IH as [[j [Hj Pj]]|IH]; [left; exists j; split; auto|].
    destruct (Hdec n) as [Pn|Pn]; [left; exists n; split; auto|].
    right. intros j Hj. destruct (Nat.eq_dec j n) as [->|Ne]; auto. apply IH. lia.
Qed.

Lemma finite_choice : forall (A : Type) (P : nat -> A -> Prop) n,
  (forall j, j < n -> exists a, P j a) ->
  exists l, length l = n /\ forall j, j < n -> exists a, nth_error l j = Some a /\ P j a.
Proof.
  intros A P; induction n as [|n IH]; intros H.
  - exists []. split; [reflexivity | intros j Hj; lia].
  - destruct IH as [l [Hl Hall]]; [intros j Hj; apply H; lia|].
    destruct (H n (Nat.lt_succ_diag_r n)) as [a Pa].
    exists (l ++ [a]). split; [rewrite app_length; simpl; lia|].
    intros j Hj. destruct (Nat.eq_dec j n) as [->|Ne].
    + exists a. split; auto. rewrite nth_error_app2 by lia. rewrite Hl, Nat.sub_diag. reflexivity.
    + destruct (Hall j) as [b [Eb Pb]]; [lia|]. exists b. split; auto.
      rewrite nth_error_app1 by lia. exact Eb.
Qed.

Lemma map_nth_iota : forall (A : Type) (d : A) l, map (fun i => nth i l d) (iota 0 (length l)) = l.
Proof.
  intros A d; induction l as [|a l IH]; [reflexivity|].
  simpl length. simpl iota. simpl map. f_equal.
  rewrite iota_S, map_map. simpl. exact IH.
Qed.

Lemma is_binary_submat : forall M rs cs, is_binary M = true -> is_binary (submat M rs cs) = true.
Proof.
  intros M rs cs H. unfold is_binary, mat_forall, submat.
  apply forallb_forall. intros r Hr. apply in_map_iff in Hr. destruct Hr as [i [<- _]].
  apply forallb_forall. intros x Hx. apply in_map_iff in Hx. destruct Hx as [j [<- _]].
  apply is_binary_entry_iff. apply get_binary. exact H.
Qed.

Lemma wf_submat : forall M rs cs, wf_mat (length rs) (length cs) (submat M rs cs) = true.
Proof.
  intros M rs cs. unfold wf_mat, submat. rewrite map_length, Nat.eqb_refl. simpl.
  apply forallb_forall. intros r Hr. apply in_map_iff in Hr. destruct Hr as [i [<- _]].
  rewrite map_length. apply Nat.eqb_refl.
Qed.

(* ------------------------------------------------------------------------------------------ *)
(* 5. Graphic matrices                                                                          *)
(* ------------------------------------------------------------------------------------------ *)

(* M (0/1) is the fundamental-cycle matrix of some graph with respect to a forest T (the rows) and non-forest
   edges C (the columns).  The acyclicity of T is stated in the inductive form [is_forest] (leaves can be stripped
   until nothing is left), which is what check_graph_cert establishes and which implies [~ has_cycle T]. *)
Definition GraphicP (m n : nat) (M : mat) : Prop :=
  is_binary M = true /\
  exists T C, length T = m /\ length C = n /\ NoDup (map e_id T) /\ is_forest T /\ fund_cycle_spec m n M T C.

Theorem GraphicP_no_cycle : forall m n M, GraphicP m n M ->
  is_binary M = true /\
  exists T C, length T = m /\ length C = n /\ NoDup (map e_id T) /\ ~ has_cycle T /\ fund_cycle_spec m n M T C.
Proof.
  intros m n M [Hb [T [C [H1 [H2 [H3 [H4 H5]]]]]]]. split; auto.
  exists T, C. repeat (split; auto). apply is_forest_no_cycle. exact H4.
Qed.
Print Assumptions GraphicP_no_cycle.

Theorem cert_GraphicP : forall m n M G f c,
  check_graph_cert m n M G f c = true -> is_binary M = true -> GraphicP m n M.
Proof.
  intros m n M G f c H Hb.
  destruct (check_graph_cert_sound _ _ _ _ _ _ H Hb)
    as [T [C [_ [H1 [H2 [H3 [H4 [H5 [H6 [H7 [Hac H8]]]]]]]]]]].
  split; auto. exists T, C. repeat (split; auto).
  - destruct (lookup_all_spec _ _ _ H1) as [TI _]. rewrite TI. eapply NoDup_app_l; eauto.
  - apply acyclic_forest. exact Hac.
Qed.
Print Assumptions cert_GraphicP.

(* the column-wise form, without the list C *)
Definition col_ok (m : nat) (M : mat) (T : list edge) (j : nat) : Prop :=
  exists x y p, simple_path T x y p /\
    forall i, i < m -> (get M i j = 1%Z <-> In (nth i T dflt) (map fst p)).

Definition forest_rep (m n : nat) (M : mat) (T : list edge) : Prop :=
  length T = m /\ NoDup (map e_id T) /\ is_forest T /\ forall j, j < n -> col_ok m M T j.

Lemma GraphicP_iff : forall m n M,
  GraphicP m n M <-> (is_binary M = true /\ exists T, forest_rep m n M T).
Proof.
  intros m n M. split.
  - intros [Hb [T [C [H1 [H2 [H3 [H4 H5]]]]]]]. split; auto. exists T. repeat (split; auto).
    intros j Hj. destruct (H5 j Hj) as [f [p [_ [Hsp Hent]]]]. exists (e_u f), (e_v f), p. split; auto.
  - intros [Hb [T [H1 [H3 [H4 H5]]]]]. split; auto.
    destruct (finite_choice edge (fun j f => exists p, simple_path T (e_u f) (e_v f) p /\
                forall i, i < m -> (get M i j = 1%Z <-> In (nth i T dflt) (map fst p))) n) as [C [HC Hall]].
    { intros j Hj. destruct (H5 j Hj) as [x [y [p [Hsp Hent]]]].
      exists {| e_id := 0; e_u := x; e_v := y |}. exists p. split; auto. }
    exists T, C. repeat (split; auto).
    intros j Hj. destruct (Hall j Hj) as [f [Ef [p [Hsp Hent]]]]. exists f, p. auto.
Qed.

Lemma col_ok_intro : forall m M T j x y p,
  NoDup (map e_id T) -> is_forest T -> is_walk T x y p -> NoDup (step_ids p) ->
  (forall i, i < m -> (get M i j = 1%Z <-> In (nth i T dflt) (map fst p))) -> col_ok m M T j.
Proof.
  intros m M T j x y p HT HF Hw Hnd Hent. exists x, y, p. split; auto.
  apply forest_trail_simple; auto.
Qed.

(* ------------------------------------------------------------------------------------------ *)
(* 6. (a) columns: any selection (deletion, permutation, duplication)                           *)
(* ------------------------------------------------------------------------------------------ *)

(* extensional core: only the entries inside the window matter *)
Lemma GraphicP_cols_ext : forall m n M n' M' (g : nat -> nat),
  GraphicP m n M -> is_binary M' = true ->
  (forall j, j < n' -> g j < n) ->
  (forall i j, i < m -> j < n' -> get M' i j = get M i (g j)) ->
  GraphicP m n' M'.
Proof.
  intros m n M n' M' g HG Hb' Hg Hent. apply GraphicP_iff in HG. apply GraphicP_iff.
  destruct HG as [_ [T [H1 [H3 [H4 H5]]]]]. split; auto. exists T. repeat (split; auto).
  intros j Hj. destruct (H5 (g j) (Hg j Hj)) as [x [y [p [Hsp He]]]].
  exists x, y, p. split; auto. intros i Hi. rewrite Hent by assumption. apply He. exact Hi.
Qed.

Lemma GraphicP_ext : forall m n M M', GraphicP m n M -> is_binary M' = true ->
  (forall i j, i < m -> j < n -> get M' i j = get M i j) -> GraphicP m n M'.
Proof.
  intros m n M M' HG Hb He. apply (GraphicP_cols_ext m n M n M' (fun j => j)); auto.
Qed.

Theorem GraphicP_cols : forall m n M cs, wf_mat m n M = true -> all_lt n cs = true ->
  GraphicP m n M -> GraphicP m (length cs) (submat M (iota 0 m) cs).
Proof.
  intros m n M cs _ Hcs HG. rewrite BalancedProofs.all_lt_spec in Hcs.
  apply (GraphicP_cols_ext m n M (length cs) _ (fun j => nth j cs 0)); auto.
  - apply is_binary_submat. apply HG.
  - intros j Hj. apply Hcs. apply nth_In. exact Hj.
  - intros i j Hi Hj. rewrite SpProofs2.get_submat by (rewrite ?length_iota; assumption).
    rewrite RelProofs.nth_iota by assumption. reflexivity.
Qed.
Print Assumptions GraphicP_cols.

(* ------------------------------------------------------------------------------------------ *)
(* 7. (b) row permutations                                                                      *)
(* ------------------------------------------------------------------------------------------ *)

Lemma is_perm_l_Permutation : forall m rp, is_perm_l m rp = true -> Permutation rp (iota 0 m).
Proof.
  intros m rp H. unfold is_perm_l in H. apply andb_true_iff in H. destruct H as [H Hnd].
  apply andb_true_iff in H. destruct H as [Hlen Hlt]. apply Nat.eqb_eq in Hlen.
  apply nodupn_NoDup in Hnd. rewrite BalancedProofs.all_lt_spec in Hlt.
  apply NoDup_Permutation_bis; auto.
  - rewrite length_iota. lia.
  - intros x Hx. apply in_iota. specialize (Hlt x Hx). lia.
Qed.

Lemma GraphicP_rowperm_ext : forall m n M M' rp,
  GraphicP m n M -> is_binary M' = true -> length rp = m -> Permutation rp (iota 0 m) ->
  (forall i j, i < m -> j < n -> get M' i j = get M (nth i rp 0) j) ->
  GraphicP m n M'.
Proof.
  intros m n M M' rp HG Hb' Hlen HP Hent. apply GraphicP_iff in HG. apply GraphicP_iff.
  destruct HG as [_ [T [H1 [H3 [H4 H5]]]]]. split; auto.
  set (T' := map (fun i => nth i T dflt) rp).
  assert (HPT : Permutation T' T).
  { unfold T'. apply perm_trans with (map (fun i => nth i T dflt) (iota 0 m)).
    - apply Permutation_map. exact HP.
    - rewrite <- H1. rewrite map_nth_iota. apply Permutation_refl. }
  assert (Hnth : forall i, i < m -> nth i T' dflt = nth (nth i rp 0) T dflt).
  { intros i Hi. unfold T'.
    rewrite (nth_indep _ dflt (nth 0 T dflt)) by (rewrite map_length; lia).
    apply (map_nth (fun i => nth i T dflt)). }
  exists T'. split; [|split; [|split]].
  - unfold T'. rewrite map_length. exact Hlen.
  - eapply Permutation_NoDup; [apply Permutation_map, Permutation_sym, HPT | exact H3].
  - eapply is_forest_perm; [exact H4 | apply Permutation_sym; exact HPT].
  - intros j Hj. destruct (H5 j Hj) as [x [y [p [[Hw Hnd] He]]]].
    exists x, y, p. split.
    + split; auto. eapply is_walk_incl; [|exact Hw]. intros q Hq.
      eapply Permutation_in; [apply Permutation_sym; exact HPT|]. eapply is_walk_edges; eauto.
    + intros i Hi. rewrite Hent, Hnth by assumption. apply He.
      assert (In (nth i rp 0) (iota 0 m)).
      { eapply Permutation_in; [exact HP|]. apply nth_In. lia. }
      apply in_iota in H. lia.
Qed.

Theorem GraphicP_rowperm : forall m n M rp, wf_mat m n M = true -> is_perm_l m rp = true ->
  GraphicP m n M -> GraphicP m n (submat M rp (iota 0 n)).
Proof.
  intros m n M rp _ Hp HG.
  pose proof (is_perm_l_Permutation m rp Hp) as HP.
  assert (Hlen : length rp = m).
  { rewrite (Permutation_length HP). apply length_iota. }
  apply (GraphicP_rowperm_ext m n M _ rp); auto.
  - apply is_binary_submat. apply HG.
  - intros i j Hi Hj. rewrite SpProofs2.get_submat by (rewrite ?length_iota; lia).
    rewrite RelProofs.nth_iota by assumption. reflexivity.
Qed.
Print Assumptions GraphicP_rowperm.

(* rows and columns at once: the shape of kind 1 of judge_rel *)
Theorem GraphicP_perm : forall m n M rp cp, wf_mat m n M = true ->
  is_perm_l m rp = true -> is_perm_l n cp = true ->
  GraphicP m n M -> GraphicP m n (submat M rp cp).
Proof.
  intros m n M rp cp Hwf Hr Hc HG.
  pose proof (is_perm_l_Permutation n cp Hc) as HPc.
  assert (Hlenc : length cp = n) by (rewrite (Permutation_length HPc); apply length_iota).
  pose proof (is_perm_l_Permutation m rp Hr) as HPr.
  assert (Hlenr : length rp = m) by (rewrite (Permutation_length HPr); apply length_iota).
  pose proof (GraphicP_rowperm m n M rp Hwf Hr HG) as H1.
  apply (GraphicP_cols_ext m n _ n (submat M rp cp) (fun j => nth j cp 0) H1).
  - apply is_binary_submat. apply HG.
  - intros j Hj. assert (In (nth j cp 0) (iota 0 n)).
    { eapply Permutation_in; [exact HPc|]. apply nth_In. lia. }
    apply in_iota in H. lia.
  - intros i j Hi Hj.
    assert (Hc' : nth j cp 0 < n).
    { assert (In (nth j cp 0) (iota 0 n)) by (eapply Permutation_in; [exact HPc|]; apply nth_In; lia).
      apply in_iota in H. lia. }
    rewrite !SpProofs2.get_submat by (rewrite ?length_iota; lia).
    rewrite RelProofs.nth_iota by assumption. reflexivity.
Qed.
Print Assumptions GraphicP_perm.

(* ------------------------------------------------------------------------------------------ *)
(* 8. (c) adding a reducible line                                                               *)
(* ------------------------------------------------------------------------------------------ *)

Definition id_bound (es : list edge) : nat := S (fold_right (fun e acc => Nat.max (e_id e) acc) O es).

Lemma id_bound_spec : forall es e, In e es -> e_id e < id_bound es.
Proof.
  unfold id_bound. induction es as [|a es IH]; intros e H; simpl in *; [contradiction|].
  destruct H as [->|H]; [lia|]. specialize (IH e H). lia.
Qed.

Lemma id_bound_fresh : forall es, ~ In (id_bound es) (map e_id es).
Proof.
  intros es H. apply in_map_iff in H. destruct H as [e [E He]].
  pose proof (id_bound_spec es e He). lia.
Qed.

Lemma node_bound_fresh : forall es z, node_bound es <= z -> forall e, In e es -> e_u e <> z /\ e_v e <> z.
Proof. intros es z Hz e He. destruct (node_bound_spec es e He). lia. Qed.

Lemma step_ids_in_T : forall T x y p, is_walk T x y p -> forall i, In i (step_ids p) -> In i (map e_id T).
Proof.
  intros T x y p Hw i Hi. unfold step_ids in Hi. apply in_map_iff in Hi. destruct Hi as [q [<- Hq]].
  apply in_map. eapply is_walk_edges; eauto.
Qed.

Lemma path_edges_in_T : forall T x y p, is_walk T x y p -> forall e, In e (map fst p) -> In e T.
Proof.
  intros T x y p Hw e He. apply in_map_iff in He. destruct He as [q [<- Hq]]. eapply is_walk_edges; eauto.
Qed.

(* every index below S m is k or skips k *)
Lemma index_cases : forall m k i', i' < S m -> k <= m -> i' = k \/ exists i, i < m /\ i' = skipidx k i.
Proof.
  intros m k i' Hi Hk. destruct (Nat.eq_dec i' k) as [E|E]; [left; exact E|]. right.
  exists (unskip k i'). split; [|symmetry; apply skip_unskip; exact E].
  replace m with (S m - 1) by lia. apply unskip_lt; lia.
Qed.

(* ---------- a new column ---------- *)

Lemma GraphicP_addcol_ext : forall m n M M' k,
  GraphicP m n M -> is_binary M' = true -> k <= n ->
  (forall i j, i < m -> j < n -> get M' i (skipidx k j) = get M i j) ->
  ((forall i1 i2, i1 < m -> i2 < m -> get M' i1 k <> 0%Z -> get M' i2 k <> 0%Z -> i1 = i2) \/
   (exists c, c < S n /\ c <> k /\ forall i, i < m -> get M' i k = get M' i c)) ->
  GraphicP m (S n) M'.
Proof.
  intros m n M M' k HG Hb' Hk Hent Hred. apply GraphicP_iff in HG. apply GraphicP_iff.
  destruct HG as [_ [T [H1 [H3 [H4 H5]]]]]. split; auto. exists T. repeat (split; auto).
  assert (Hold : forall j, j < S n -> j <> k -> col_ok m M' T j).
  { intros j Hj Ne. destruct (H5 (unskip k j)) as [x [y [p [Hsp He]]]].
    { replace n with (S n - 1) by lia. apply unskip_lt; lia. }
    exists x, y, p. split; auto. intros i Hi.
    rewrite <- (skip_unskip k j Ne). rewrite Hent; auto.
    replace n with (S n - 1) by lia. apply unskip_lt; lia. }
  intros j Hj. destruct (Nat.eq_dec j k) as [->|Ne]; [|apply Hold; auto].
  destruct Hred as [Huniq|[c [Hc [Nc Hcopy]]]].
  - destruct (bounded_dec (fun i => get M' i k <> 0%Z) m) as [[i1 [Hi1 Hnz]]|Hz].
    { intros i. destruct (Z.eq_dec (get M' i k) 0); [right; intros H; apply H; assumption | left; assumption]. }
    + (* unit column: parallel to the forest edge of row i1 *)
      set (e := nth i1 T dflt).
      assert (HeT : In e T) by (apply nth_In; lia).
      assert (Hnl : e_u e <> e_v e).
      { pose proof (is_forest_noloop T H4 e HeT) as Hl. unfold is_loop in Hl. apply Nat.eqb_neq in Hl. exact Hl. }
      exists (e_u e), (e_v e), [(e, true)]. split.
      * split.
        -- constructor; auto. constructor.
        -- simpl. constructor; [intros [E|[]]; congruence|]. constructor; [intros []|constructor].
      * intros i Hi. simpl. split.
        -- intros E1. left. assert (i1 = i); [|subst; reflexivity].
           apply Huniq; auto. rewrite E1. discriminate.
        -- intros [E|[]].
           assert (i1 = i).
           { apply (proj1 (NoDup_nth T dflt) (NoDup_map_NoDup _ _ e_id T H3)); try lia. exact E. }
           subst i. destruct (get_binary M' i1 k Hb'); [contradiction | assumption].
    + (* zero column: a loop *)
      exists 0, 0, []. split.
      * split; [constructor|]. simpl. constructor; [intros []|constructor].
      * intros i Hi. simpl. split; [|intros []]. intros E1. apply (Hz i Hi). rewrite E1. discriminate.
  - destruct (Hold c Hc Nc) as [x [y [p [Hsp He]]]]. exists x, y, p. split; auto.
    intros i Hi. rewrite Hcopy by exact Hi. apply He. exact Hi.
Qed.

(* ---------- a new row carried by a pendant forest edge (zero and unit rows) ---------- *)

Lemma pendant_rep : forall m n M M' T k j0 w z idn,
  forest_rep m n M T -> k <= m ->
  (forall i j, i < m -> j < n -> get M' (skipidx k i) j = get M i j) ->
  (forall e, In e T -> e_u e <> z /\ e_v e <> z) -> w <> z -> ~ In idn (map e_id T) ->
  (forall j, j < n -> j <> j0 -> get M' k j <> 1%Z) ->
  (j0 < n -> get M' k j0 = 1%Z /\ exists y p, simple_path T w y p /\
             forall i, i < m -> (get M i j0 = 1%Z <-> In (nth i T dflt) (map fst p))) ->
  forest_rep (S m) n M' (insert_at k {| e_id := idn; e_u := w; e_v := z |} T).
Proof.
  intros m n M M' T k j0 w z idn [H1 [H3 [H4 H5]]] Hk Hent Hfr Hwz Hid Hrow0 Hrow1.
  set (enew := {| e_id := idn; e_u := w; e_v := z |}).
  set (T' := insert_at k enew T).
  assert (HP : Permutation T' (enew :: T)) by apply perm_insert.
  assert (HnT : ~ In enew T).
  { intros H. apply Hid. change idn with (e_id enew). apply in_map. exact H. }
  assert (HF' : is_forest T').
  { apply (is_forest_perm (enew :: T)); [|apply Permutation_sym; exact HP].
    apply is_forest_pendant; auto. }
  assert (HN' : NoDup (map e_id T')).
  { eapply Permutation_NoDup; [apply Permutation_map, Permutation_sym, HP|].
    simpl. constructor; auto. }
  assert (Hincl : forall e, In e T -> In e T').
  { intros e He. eapply Permutation_in; [apply Permutation_sym; exact HP | right; exact He]. }
  assert (HinN : In enew T').
  { eapply Permutation_in; [apply Permutation_sym; exact HP | left; reflexivity]. }
  assert (Hnk : nth k T' dflt = enew) by (apply nth_insert_k; lia).
  assert (Hns : forall i, nth (skipidx k i) T' dflt = nth i T dflt) by (intros i; apply nth_insert_skip; lia).
  split; [|split; [|split]]; auto.
  - unfold T'. rewrite length_insert. lia.
  - intros j Hj. destruct (Nat.eq_dec j j0) as [->|Ne].
    + destruct (Hrow1 Hj) as [Hk1 [y [p [Hsp He]]]].
      pose proof (simple_path_NoDup_ids _ _ _ _ H3 Hsp) as Hndp. destruct Hsp as [Hw Hndn].
      apply (col_ok_intro (S m) M' T' j0 z y ((enew, false) :: p)); auto.
      * constructor; auto. simpl. eapply is_walk_incl; [|exact Hw].
        intros q Hq. apply Hincl. eapply is_walk_edges; eauto.
      * simpl. constructor; auto. intros Hi. apply Hid. eapply step_ids_in_T; eauto.
      * intros i' Hi'. destruct (index_cases m k i' Hi' Hk) as [->|[i [Hi ->]]].
        -- rewrite Hnk. simpl. split; auto.
        -- rewrite Hns, Hent by assumption. rewrite (He i Hi). simpl. split; auto.
           intros [E|H]; auto. exfalso. apply HnT. rewrite E. apply nth_In. lia.
    + destruct (H5 j Hj) as [x [y [p [[Hw Hndn] He]]]]. exists x, y, p. split.
      * split; auto. eapply is_walk_incl; [|exact Hw].
        intros q Hq. apply Hincl. eapply is_walk_edges; eauto.
      * intros i' Hi'. destruct (index_cases m k i' Hi' Hk) as [->|[i [Hi ->]]].
        -- rewrite Hnk. split; [intros E; exfalso; apply (Hrow0 j Hj Ne E)|].
           intros Hin. exfalso. apply HnT. eapply path_edges_in_T; eauto.
        -- rewrite Hns, Hent by assumption. apply He. exact Hi.
Qed.

Lemma GraphicP_addrow_pendant_ext : forall m n M M' k,
  GraphicP m n M -> is_binary M' = true -> k <= m ->
  (forall i j, i < m -> j < n -> get M' (skipidx k i) j = get M i j) ->
  (forall j1 j2, j1 < n -> j2 < n -> get M' k j1 <> 0%Z -> get M' k j2 <> 0%Z -> j1 = j2) ->
  GraphicP (S m) n M'.
Proof.
  intros m n M M' k HG Hb' Hk Hent Huniq. apply GraphicP_iff in HG. apply GraphicP_iff.
  destruct HG as [_ [T HR]]. split; auto.
  pose proof HR as [H1 [H3 [H4 H5]]].
  destruct (bounded_dec (fun j => get M' k j <> 0%Z) n) as [[j0 [Hj0 Hnz]]|Hz].
  { intros j. destruct (Z.eq_dec (get M' k j) 0); [right; intros H; apply H; assumption | left; assumption]. }
  - destruct (H5 j0 Hj0) as [x [y [p [Hsp He]]]].
    exists (insert_at k {| e_id := id_bound T; e_u := x; e_v := node_bound T + S x |} T).
    apply (pendant_rep m n M M' T k j0); auto.
    + apply node_bound_fresh. lia.
    + lia.
    + apply id_bound_fresh.
    + intros j Hj Ne E. apply Ne. apply Huniq; auto. rewrite E. discriminate.
    + intros _. split.
      * destruct (get_binary M' k j0 Hb'); [contradiction | assumption].
      * exists y, p. split; auto.
  - exists (insert_at k {| e_id := id_bound T; e_u := S (node_bound T); e_v := node_bound T |} T).
    apply (pendant_rep m n M M' T k n); auto.
    + apply node_bound_fresh. lia.
    + apply id_bound_fresh.
    + intros j Hj _ E. apply (Hz j Hj). rewrite E. discriminate.
    + intros H. lia.
Qed.

(* ---------- a new row that copies row i0: subdivide the forest edge of row i0 ---------- *)

Section SubPath.
Variables e0 e1 e2 : edge.

Definition sub_step (q : edge * bool) : list (edge * bool) :=
  if edge_eq_dec (fst q) e0
  then (if snd q then [(e1, true); (e2, true)] else [(e2, false); (e1, false)])
  else [q].
Definition sub_path (p : list (edge * bool)) : list (edge * bool) := flat_map sub_step p.

Hypothesis Hu1 : e_u e1 = e_u e0.
Hypothesis Hv1 : e_v e1 = e_u e2.
Hypothesis Hv2 : e_v e2 = e_v e0.
Hypothesis Hid1 : e_id e1 = e_id e0.

Lemma sub_path_walk : forall L L' x y p, is_walk L x y p ->
  In e1 L' -> In e2 L' -> (forall e, In e L -> e <> e0 -> In e L') ->
  is_walk L' x y (sub_path p).
Proof.
  intros L L' x y p H I1 I2 Hother; induction H as [x|x y e fwd p Hin Hs Hw IH]; [constructor|].
  unfold sub_path. simpl flat_map. fold (sub_path p). unfold sub_step at 1. simpl fst. simpl snd.
  destruct (edge_eq_dec e e0) as [E|E].
  - subst e. destruct fwd; simpl app; simpl in Hs, IH.
    + apply walk_cons; [exact I1 | simpl; congruence | simpl].
      apply walk_cons; [exact I2 | simpl; congruence | simpl]. rewrite Hv2. exact IH.
    + apply walk_cons; [exact I2 | simpl; congruence | simpl].
      apply walk_cons; [exact I1 | simpl; congruence | simpl]. rewrite Hu1. exact IH.
  - simpl app. apply walk_cons; auto.
Qed.

Lemma sub_path_ids_in : forall p i, In i (step_ids (sub_path p)) -> i = e_id e2 \/ In i (step_ids p).
Proof.
  induction p as [|[e b] p IH]; intros i Hi; [destruct Hi|].
  unfold sub_path in Hi. simpl flat_map in Hi. fold (sub_path p) in Hi. unfold step_ids in Hi.
  rewrite map_app in Hi. apply in_app_or in Hi. destruct Hi as [Hi|Hi].
  - unfold sub_step in Hi. simpl fst in Hi. simpl snd in Hi.
    destruct (edge_eq_dec e e0) as [E|E].
    + subst e. destruct b; simpl in Hi; destruct Hi as [Hi|[Hi|[]]]; subst i; auto;
        right; left; simpl; congruence.
    + simpl in Hi. destruct Hi as [Hi|[]]. right. left. exact Hi.
  - destruct (IH i Hi) as [?|?]; auto. right. right. assumption.
Qed.

Lemma sub_path_id2_in : forall p, In (e_id e2) (step_ids (sub_path p)) ->
  In (e_id e0) (step_ids p) \/ In (e_id e2) (step_ids p).
Proof.
  induction p as [|[e b] p IH]; intros Hi; [destruct Hi|].
  unfold sub_path in Hi. simpl flat_map in Hi. fold (sub_path p) in Hi. unfold step_ids in Hi.
  rewrite map_app in Hi. apply in_app_or in Hi. destruct Hi as [Hi|Hi].
  - unfold sub_step in Hi. simpl fst in Hi. simpl snd in Hi.
    destruct (edge_eq_dec e e0) as [E|E].
    + subst e. left. left. reflexivity.
    + simpl in Hi. destruct Hi as [Hi|[]]. right. left. exact Hi.
  - destruct (IH Hi) as [?|?]; [left|right]; right; assumption.
Qed.

Lemma sub_path_NoDup_ids : forall p, NoDup (step_ids p) -> ~ In (e_id e2) (step_ids p) ->
  e_id e2 <> e_id e0 -> NoDup (step_ids (sub_path p)).
Proof.
  induction p as [|[e b] p IH]; intros Hnd Hn2 Hne; [constructor|].
  simpl in Hnd. apply NoDup_cons_iff in Hnd. destruct Hnd as [Hx Hnd].
  assert (Hn2' : ~ In (e_id e2) (step_ids p)) by (intros H; apply Hn2; right; exact H).
  specialize (IH Hnd Hn2' Hne).
  unfold sub_path. simpl flat_map. fold (sub_path p). unfold step_ids. rewrite map_app.
  fold (step_ids (sub_path p)). unfold sub_step. simpl fst. simpl snd.
  destruct (edge_eq_dec e e0) as [E|E].
  - subst e.
    assert (A0 : ~ In (e_id e0) (step_ids (sub_path p))).
    { intros H. destruct (sub_path_ids_in p _ H) as [H'|H']; [congruence | contradiction]. }
    assert (A2 : ~ In (e_id e2) (step_ids (sub_path p))).
    { intros H. destruct (sub_path_id2_in p H) as [H'|H']; contradiction. }
    destruct b; simpl; rewrite Hid1.
    + constructor; [intros [H|H]; [congruence | contradiction]|]. constructor; auto.
    + constructor; [intros [H|H]; [congruence | contradiction]|]. constructor; auto.
  - simpl. constructor; auto. intros H. destruct (sub_path_ids_in p _ H) as [H'|H']; [|contradiction].
    apply Hn2. left. simpl. exact H'.
Qed.

Lemma sub_step_edges : forall q e,
  In e (map fst (sub_step q)) <-> ((fst q = e0 /\ (e = e1 \/ e = e2)) \/ (fst q <> e0 /\ e = fst q)).
Proof.
  intros [a b] e. unfold sub_step. simpl fst. simpl snd.
  destruct (edge_eq_dec a e0) as [E|E]; [destruct b|]; simpl; intuition congruence.
Qed.

Lemma sub_path_edges : forall p e,
  In e (map fst (sub_path p)) <->
  (((e = e1 \/ e = e2) /\ In e0 (map fst p)) \/ (e <> e0 /\ In e (map fst p))).
Proof.
  induction p as [|[a b] p IH]; intros e.
  - simpl. tauto.
  - unfold sub_path. simpl flat_map. fold (sub_path p). rewrite map_app, in_app_iff, IH, sub_step_edges.
    simpl. intuition congruence.
Qed.

End SubPath.

Lemma copy_rep : forall m n M M' T k i0,
  forest_rep m n M T -> k <= m -> i0 < m ->
  (forall i j, i < m -> j < n -> get M' (skipidx k i) j = get M i j) ->
  (forall j, j < n -> get M' k j = get M i0 j) ->
  exists T', forest_rep (S m) n M' T'.
Proof.
  intros m n M M' T k i0 [H1 [H3 [H4 H5]]] Hk Hi0 Hent Hcopy.
  set (e0 := nth i0 T dflt).
  set (z := node_bound T).
  set (idn := id_bound T).
  set (e1 := {| e_id := e_id e0; e_u := e_u e0; e_v := z |}).
  set (e2 := {| e_id := idn; e_u := z; e_v := e_v e0 |}).
  set (g := fun e => if edge_eq_dec e e0 then e1 else e).
  set (T0 := map g T).
  set (T' := insert_at k e2 T0).
  assert (HndT : NoDup T) by (eapply NoDup_map_NoDup; eauto).
  assert (He0 : In e0 T) by (apply nth_In; lia).
  assert (Hfr : forall e, In e T -> e_u e <> z /\ e_v e <> z) by (apply node_bound_fresh; unfold z; lia).
  assert (Hn1 : ~ In e1 T). { intros H. destruct (Hfr e1 H) as [_ A]. apply A. reflexivity. }
  assert (Hn2 : ~ In e2 T). { intros H. destruct (Hfr e2 H) as [A _]. apply A. reflexivity. }
  assert (Hidn : ~ In idn (map e_id T)) by apply id_bound_fresh.
  assert (Hne : e_id e2 <> e_id e0).
  { simpl. intros E. apply Hidn. rewrite E. apply in_map. exact He0. }
  destruct (in_split _ _ He0) as [a [b Eab]].
  assert (Hnab : ~ In e0 (a ++ b)). { rewrite Eab in HndT. apply NoDup_remove_2 in HndT. exact HndT. }
  assert (Hga : forall l, ~ In e0 l -> map g l = l).
  { intros l Hl. rewrite <- (map_id l) at 2. apply map_ext_in. intros e He. unfold g.
    destruct (edge_eq_dec e e0) as [Q|Q]; [rewrite Q in He; contradiction | reflexivity]. }
  assert (ET0 : T0 = a ++ e1 :: b).
  { unfold T0. rewrite Eab, map_app. simpl map. rewrite !Hga.
    - unfold g. destruct (edge_eq_dec e0 e0); [reflexivity | congruence].
    - intros H. apply Hnab. apply in_or_app. right; exact H.
    - intros H. apply Hnab. apply in_or_app. left; exact H. }
  assert (HPT : Permutation T (e0 :: a ++ b)).
  { rewrite Eab. apply Permutation_sym, Permutation_middle. }
  assert (HP' : Permutation T' (e1 :: e2 :: a ++ b)).
  { apply perm_trans with (e2 :: T0); [apply perm_insert|].
    apply perm_trans with (e2 :: e1 :: a ++ b); [|apply perm_swap].
    apply perm_skip. rewrite ET0. apply Permutation_sym, Permutation_middle. }
  assert (HF' : is_forest T').
  { apply (is_forest_perm (e1 :: e2 :: a ++ b)); [|apply Permutation_sym; exact HP'].
    apply (is_forest_subdivide T H4 e0 (a ++ b) z idn HPT Hfr). }
  assert (Hids0 : map e_id T0 = map e_id T).
  { unfold T0. rewrite map_map. apply map_ext. intros e. unfold g.
    destruct (edge_eq_dec e e0) as [Q|Q]; [rewrite Q; reflexivity | reflexivity]. }
  assert (HN' : NoDup (map e_id T')).
  { eapply Permutation_NoDup; [apply Permutation_map, Permutation_sym, perm_insert|].
    simpl. rewrite Hids0. constructor; auto. }
  assert (HlenT0 : length T0 = m) by (unfold T0; rewrite map_length; exact H1).
  assert (Hnk : nth k T' dflt = e2) by (apply nth_insert_k; lia).
  assert (Hns : forall i, i < m -> nth (skipidx k i) T' dflt = g (nth i T dflt)).
  { intros i Hi. unfold T'. rewrite nth_insert_skip by lia. unfold T0.
    rewrite (nth_indep _ dflt (g dflt)) by (rewrite map_length; lia). apply map_nth. }
  assert (HinT' : forall e, In e T' <-> e = e1 \/ e = e2 \/ In e (a ++ b)).
  { intros e. split.
    - intros H. apply (Permutation_in _ HP') in H. simpl in H. intuition.
    - intros H. apply (Permutation_in _ (Permutation_sym HP')). simpl. intuition. }
  assert (Hother : forall e, In e T -> e <> e0 -> In e T').
  { intros e He Ne. apply HinT'. right. right. apply (Permutation_in _ HPT) in He.
    destruct He as [E|He]; [congruence | exact He]. }
  exists T'. split; [|split; [|split]]; auto.
  - unfold T'. rewrite length_insert. lia.
  - intros j Hj. destruct (H5 j Hj) as [x [y [p [Hsp He]]]].
    pose proof (simple_path_NoDup_ids _ _ _ _ H3 Hsp) as Hndp. destruct Hsp as [Hw Hndn].
    assert (HpT : forall e, In e (map fst p) -> In e T) by (eapply path_edges_in_T; eauto).
    assert (K12 : forall e, e = e1 \/ e = e2 ->
              (In e (map fst (sub_path e0 e1 e2 p)) <-> In e0 (map fst p))).
    { intros e He12. rewrite sub_path_edges. split.
      - intros [[_ H]|[_ H]]; auto. exfalso. apply HpT in H. destruct He12 as [Q|Q]; rewrite Q in H; contradiction.
      - intros H. left. split; auto. }
    apply (col_ok_intro (S m) M' T' j x y (sub_path e0 e1 e2 p)); auto.
    + apply (sub_path_walk e0 e1 e2 eq_refl eq_refl eq_refl T T'); auto.
      * apply HinT'. left; reflexivity.
      * apply HinT'. right; left; reflexivity.
    + apply sub_path_NoDup_ids; auto.
      simpl. intros H. apply Hidn. eapply step_ids_in_T; eauto.
    + intros i' Hi'. destruct (index_cases m k i' Hi' Hk) as [->|[i [Hi ->]]].
      * rewrite Hnk, Hcopy by assumption. rewrite (He i0 Hi0). fold e0. symmetry. apply K12. auto.
      * rewrite Hns, Hent by assumption. rewrite (He i Hi). unfold g.
        destruct (edge_eq_dec (nth i T dflt) e0) as [E|E].
        -- rewrite E. symmetry. apply K12. auto.
        -- assert (HiT : In (nth i T dflt) T) by (apply nth_In; lia).
           rewrite sub_path_edges. split.
           ++ intros H. right. split; auto.
           ++ intros [[[A|A] _]|[_ A]]; auto; exfalso; rewrite A in HiT; contradiction.
Qed.

Lemma GraphicP_addrow_copy_ext : forall m n M M' k r,
  GraphicP m n M -> is_binary M' = true -> k <= m -> r < S m -> r <> k ->
  (forall i j, i < m -> j < n -> get M' (skipidx k i) j = get M i j) ->
  (forall j, j < n -> get M' k j = get M' r j) ->
  GraphicP (S m) n M'.
Proof.
  intros m n M M' k r HG Hb' Hk Hr Nr Hent Hcopy. apply GraphicP_iff in HG. apply GraphicP_iff.
  destruct HG as [_ [T HR]]. split; auto.
  assert (Hi0 : unskip k r < m). { replace m with (S m - 1) by lia. apply unskip_lt; lia. }
  apply (copy_rep m n M M' T k (unskip k r)); auto.
  intros j Hj. rewrite Hcopy by exact Hj. rewrite <- (skip_unskip k r Nr) at 1. apply Hent; auto.
Qed.

(* ---------- the statements in terms of line_reducible ---------- *)

Lemma row_red_cases : forall m n M k, line_reducible false m n M true k = true ->
  (forall c1 c2, c1 < n -> c2 < n -> get M k c1 <> 0%Z -> get M k c2 <> 0%Z -> c1 = c2) \/
  (exists r, r < m /\ r <> k /\ forall c, c < n -> get M k c = get M r c).
Proof.
  intros m n M k H. unfold line_reducible in H. apply SpProofs.row_reducible_iff in H.
  destruct H as [H|[r [s [Lr [Nr [Hs Hc]]]]]].
  - left. intros c1 c2 H1 H2. apply H; apply SpProofs2.live_all_true; assumption.
  - right. exists r. apply SpProofs2.live_all_true in Lr. repeat split; auto.
    intros c Hc'. rewrite (Hc c) by (apply SpProofs2.live_all_true; exact Hc').
    destruct Hs as [->|[F _]]; [|discriminate]. apply Z.mul_1_l.
Qed.

Lemma col_red_cases : forall m n M k, line_reducible false m n M false k = true ->
  (forall r1 r2, r1 < m -> r2 < m -> get M r1 k <> 0%Z -> get M r2 k <> 0%Z -> r1 = r2) \/
  (exists c, c < n /\ c <> k /\ forall r, r < m -> get M r k = get M r c).
Proof.
  intros m n M k H. unfold line_reducible in H. apply SpProofs.col_reducible_iff in H.
  destruct H as [H|[c [s [Lc [Nc [Hs Hc]]]]]].
  - left. intros r1 r2 H1 H2. apply H; apply SpProofs2.live_all_true; assumption.
  - right. exists c. apply SpProofs2.live_all_true in Lc. repeat split; auto.
    intros r Hr'. rewrite (Hc r) by (apply SpProofs2.live_all_true; exact Hr').
    destruct Hs as [->|[F _]]; [|discriminate]. apply Z.mul_1_l.
Qed.

Theorem GraphicP_add_row : forall m' n' M' k, wf_mat m' n' M' = true -> is_binary M' = true ->
  k < m' -> line_reducible false m' n' M' true k = true ->
  GraphicP (m' - 1) n' (submat M' (keep_line m' k) (iota 0 n')) -> GraphicP m' n' M'.
Proof.
  intros m' n' M' k _ Hb Hk Hred HG.
  destruct m' as [|m]; [lia|]. replace (S m - 1) with m in HG by lia.
  assert (Hent : forall i j, i < m -> j < n' ->
            get M' (skipidx k i) j = get (submat M' (keep_line (S m) k) (iota 0 n')) i j).
  { intros i j Hi Hj. rewrite (get_drop_row' (S m) n'); auto. lia. }
  destruct (row_red_cases _ _ _ _ Hred) as [Hu|[r [Hr [Nr Hc]]]].
  - apply (GraphicP_addrow_pendant_ext m n' _ M' k HG Hb); [lia | exact Hent | exact Hu].
  - apply (GraphicP_addrow_copy_ext m n' _ M' k r HG Hb); [lia | exact Hr | exact Nr | exact Hent | exact Hc].
Qed.
Print Assumptions GraphicP_add_row.

Theorem GraphicP_add_col : forall m' n' M' k, wf_mat m' n' M' = true -> is_binary M' = true ->
  k < n' -> line_reducible false m' n' M' false k = true ->
  GraphicP m' (n' - 1) (submat M' (iota 0 m') (keep_line n' k)) -> GraphicP m' n' M'.
Proof.
  intros m' n' M' k _ Hb Hk Hred HG.
  destruct n' as [|n]; [lia|]. replace (S n - 1) with n in HG by lia.
  assert (Hent : forall i j, i < m' -> j < n ->
            get M' i (skipidx k j) = get (submat M' (iota 0 m') (keep_line (S n) k)) i j).
  { intros i j Hi Hj. rewrite (get_drop_col' m' (S n)); auto. lia. }
  apply (GraphicP_addcol_ext m' n _ M' k HG Hb); [lia | exact Hent |].
  destruct (col_red_cases _ _ _ _ Hred) as [Hu|[c [Hc [Nc Hcc]]]]; [left; exact Hu|].
  right. exists c. auto.
Qed.
Print Assumptions GraphicP_add_col.

(* ------------------------------------------------------------------------------------------ *)
(* 9. (d) deleting a row = contracting its forest edge                                          *)
(* ------------------------------------------------------------------------------------------ *)

Section Contract.
Variable e : edge.
Variable r : nat -> nat.

Definition keep_step (q : edge * bool) : bool := if edge_eq_dec (fst q) e then false else true.
Definition con_path (p : list (edge * bool)) : list (edge * bool) :=
  map (fun q => (ren r (fst q), snd q)) (filter keep_step p).

Hypothesis Hr : r (e_u e) = r (e_v e).

Lemma con_path_walk : forall L L' x y p, is_walk L x y p ->
  (forall a, In a L -> a <> e -> In (ren r a) L') ->
  is_walk L' (r x) (r y) (con_path p).
Proof.
  intros L L' x y p H Hin'; induction H as [x|x y a fwd p Hin Hs Hw IH]; [constructor|].
  unfold con_path. simpl filter. unfold keep_step at 1. simpl fst.
  destruct (edge_eq_dec a e) as [E|E].
  - fold (con_path p). subst a. destruct fwd; simpl in Hs, IH; subst x; [rewrite Hr | rewrite <- Hr]; exact IH.
  - simpl map. fold (con_path p). apply walk_cons.
    + apply Hin'; auto.
    + destruct fwd; simpl; subst x; reflexivity.
    + replace (if fwd then e_v (ren r a) else e_u (ren r a)) with (r (if fwd then e_v a else e_u a))
        by (destruct fwd; reflexivity).
      exact IH.
Qed.

Lemma NoDup_map_filter : forall (A B : Type) (f : A -> B) (g : A -> bool) l,
  NoDup (map f l) -> NoDup (map f (filter g l)).
Proof.
  intros A B f g; induction l as [|a l IH]; intros H; simpl; [constructor|].
  simpl in H. apply NoDup_cons_iff in H. destruct H as [Hx Hnd].
  destruct (g a); simpl; auto. constructor; auto.
  intros Hin. apply Hx. apply in_map_iff in Hin. destruct Hin as [b [Eb Hb]].
  apply filter_In in Hb. apply in_map_iff. exists b. tauto.
Qed.

Lemma con_path_ids : forall p, NoDup (step_ids p) -> NoDup (step_ids (con_path p)).
Proof.
  intros p H. unfold step_ids, con_path. rewrite map_map. simpl.
  apply (NoDup_map_filter _ _ (fun q : edge * bool => e_id (fst q))). exact H.
Qed.

Lemma con_path_edges : forall p a, a <> e -> In a (map fst p) -> In (ren r a) (map fst (con_path p)).
Proof.
  intros p a Ne Hin. apply in_map_iff in Hin. destruct Hin as [[a' b] [E Hq]]. simpl in E; subst a'.
  unfold con_path. rewrite map_map. simpl. apply in_map_iff. exists (a, b). split; [reflexivity|].
  apply filter_In. split; auto. unfold keep_step. simpl. destruct (edge_eq_dec a e); [contradiction | reflexivity].
Qed.

Lemma con_path_edges_inv : forall p b, In b (map fst (con_path p)) ->
  exists a, a <> e /\ In a (map fst p) /\ b = ren r a.
Proof.
  intros p b Hin. unfold con_path in Hin. rewrite map_map in Hin. simpl in Hin.
  apply in_map_iff in Hin. destruct Hin as [[a c] [E Hq]]. simpl in E.
  apply filter_In in Hq. destruct Hq as [Hq Hk]. exists a. split; [|split; auto].
  - unfold keep_step in Hk. simpl in Hk. destruct (edge_eq_dec a e); [discriminate | assumption].
  - apply in_map_iff. exists (a, c). split; auto.
Qed.

End Contract.

Lemma GraphicP_delrow_ext : forall m n M M' k,
  GraphicP m n M -> is_binary M' = true -> k < m ->
  (forall i j, i < m - 1 -> j < n -> get M' i j = get M (skipidx k i) j) ->
  GraphicP (m - 1) n M'.
Proof.
  intros m n M M' k HG Hb' Hk Hent. apply GraphicP_iff in HG. apply GraphicP_iff.
  destruct HG as [_ [T [H1 [H3 [H4 H5]]]]]. split; auto.
  set (e := nth k T dflt).
  set (r := fun x => if Nat.eqb x (e_v e) then e_u e else x).
  set (R := remove_at k T).
  set (T' := map (ren r) R).
  assert (HndT : NoDup T) by (eapply NoDup_map_NoDup; eauto).
  assert (HP : Permutation T (e :: R)) by (apply perm_remove; lia).
  assert (Hruv : r (e_u e) = r (e_v e)).
  { unfold r. rewrite Nat.eqb_refl. destruct (Nat.eqb_spec (e_u e) (e_v e)); reflexivity. }
  assert (Hrspec : forall x y, r x = r y -> x = y \/ (incident e x = true /\ incident e y = true)).
  { intros x y. unfold r. rewrite !incident_iff.
    destruct (Nat.eqb_spec x (e_v e)); destruct (Nat.eqb_spec y (e_v e)); intros E; subst; auto. }
  assert (HF' : is_forest T') by (apply (is_forest_contract T H4 e R r HP Hrspec)).
  assert (HidR : map e_id T' = map e_id R).
  { unfold T'. rewrite map_map. apply map_ext. reflexivity. }
  assert (HN' : NoDup (map e_id T')).
  { rewrite HidR. pose proof (Permutation_NoDup (Permutation_map e_id HP) H3) as Hn.
    simpl in Hn. apply NoDup_cons_iff in Hn. apply Hn. }
  assert (HlenR : length R = m - 1) by (unfold R; rewrite length_remove; lia).
  assert (Hnth : forall i, i < m - 1 -> nth i T' dflt = ren r (nth (skipidx k i) T dflt)).
  { intros i Hi. unfold T'. rewrite (nth_indep _ dflt (ren r dflt)) by (rewrite map_length; lia).
    rewrite map_nth. unfold R. rewrite nth_remove. reflexivity. }
  assert (HinT' : forall a, In a T -> a <> e -> In (ren r a) T').
  { intros a Ha Ne. unfold T'. apply in_map. apply (Permutation_in _ HP) in Ha.
    destruct Ha as [E|Ha]; [congruence | exact Ha]. }
  exists T'. split; [|split; [|split]]; auto.
  - unfold T'. rewrite map_length. exact HlenR.
  - intros j Hj. destruct (H5 j Hj) as [x [y [p [Hsp He]]]].
    pose proof (simple_path_NoDup_ids _ _ _ _ H3 Hsp) as Hndp. destruct Hsp as [Hw Hndn].
    apply (col_ok_intro (m - 1) M' T' j (r x) (r y) (con_path e r p)); auto.
    + apply (con_path_walk e r Hruv T T'); auto.
    + apply con_path_ids. exact Hndp.
    + intros i Hi. pose proof (skipidx_lt m k i Hk Hi) as Hs.
      rewrite Hent, Hnth by assumption. rewrite (He _ Hs).
      set (a := nth (skipidx k i) T dflt).
      assert (HaT : In a T) by (apply nth_In; lia).
      assert (Hae : a <> e).
      { intros E. apply (skipidx_neq k i).
        apply (proj1 (NoDup_nth T dflt) HndT); try lia. exact E. }
      split.
      * intros Hin. apply con_path_edges; auto.
      * intros Hin. destruct (con_path_edges_inv e r p _ Hin) as [a' [Ne' [Hin' E']]].
        assert (a = a'); [|subst a'; exact Hin'].
        apply (NoDup_map_inj _ _ e_id T); auto.
        -- eapply path_edges_in_T; eauto.
        -- apply (f_equal e_id) in E'. exact E'.
Qed.

Theorem GraphicP_delete_row : forall m n M k, wf_mat m n M = true -> k < m ->
  GraphicP m n M -> GraphicP (m - 1) n (submat M (keep_line m k) (iota 0 n)).
Proof.
  intros m n M k _ Hk HG. apply (GraphicP_delrow_ext m n M _ k); auto.
  - apply is_binary_submat. apply HG.
  - intros i j Hi Hj. apply get_drop_row'; auto.
Qed.
Print Assumptions GraphicP_delete_row.

(* ------------------------------------------------------------------------------------------ *)
(* 10. (e) the combined statements                                                              *)
(* ------------------------------------------------------------------------------------------ *)

Theorem GraphicP_reducible_line : forall m' n' M' (isr : bool) k,
  wf_mat m' n' M' = true -> is_binary M' = true ->
  (if isr then Nat.ltb k m' else Nat.ltb k n') = true ->
  line_reducible false m' n' M' isr k = true ->
  (GraphicP m' n' M' <->
   if isr then GraphicP (m' - 1) n' (submat M' (keep_line m' k) (iota 0 n'))
   else GraphicP m' (n' - 1) (submat M' (iota 0 m') (keep_line n' k))).
Proof.
  intros m' n' M' isr k Hwf Hb Hk Hred. destruct isr; apply Nat.ltb_lt in Hk.
  - split.
    + apply GraphicP_delete_row; auto.
    + apply GraphicP_add_row; auto.
  - split.
    + intros HG. rewrite <- (RelProofs.length_keep_line n' k Hk).
      apply (GraphicP_cols m' n' M' (keep_line n' k)); auto. apply RelProofs.all_lt_keep_line.
    + apply GraphicP_add_col; auto.
Qed.
Print Assumptions GraphicP_reducible_line.

(* any duplicate-free selection of rows (deletion and permutation at once) *)
Lemma GraphicP_rows_gen : forall d m n M rs,
  length rs + d = m -> NoDup rs -> (forall x, In x rs -> x < m) -> GraphicP m n M ->
  forall M', is_binary M' = true ->
  (forall i j, i < length rs -> j < n -> get M' i j = get M (nth i rs 0) j) ->
  GraphicP (length rs) n M'.
Proof.
  induction d as [|d IH]; intros m n M rs Hlen Hnd Hlt HG M' Hb' Hent.
  - assert (HP : Permutation rs (iota 0 m)).
    { apply NoDup_Permutation_bis; auto.
      - rewrite length_iota. lia.
      - intros x Hx. apply in_iota. specialize (Hlt x Hx). lia. }
    replace (length rs) with m by lia.
    apply (GraphicP_rowperm_ext m n M M' rs); auto; [lia|].
    intros i j Hi Hj. apply Hent; auto. lia.
  - destruct (bounded_dec (fun k => ~ In k rs) m) as [[k [Hk Hnk]]|Hall].
    { intros k. destruct (in_dec Nat.eq_dec k rs); [right; intros H; apply H; assumption | left; assumption]. }
    + set (M1 := submat M (keep_line m k) (iota 0 n)).
      assert (HG1 : GraphicP (m - 1) n M1).
      { apply (GraphicP_delrow_ext m n M M1 k); auto.
        - apply is_binary_submat. apply HG.
        - intros i j Hi Hj. apply get_drop_row'; auto. }
      set (rs1 := map (unskip k) rs).
      assert (Hl1 : length rs1 = length rs) by (unfold rs1; apply map_length).
      assert (Hne : forall x, In x rs -> x <> k) by (intros x Hx E; subst; contradiction).
      rewrite <- Hl1. apply (IH (m - 1) n M1 rs1).
      * lia.
      * unfold rs1. apply NoDup_map_inj_in; auto. intros a b Ha Hb E.
        rewrite <- (skip_unskip k a (Hne a Ha)), <- (skip_unskip k b (Hne b Hb)), E. reflexivity.
      * intros x Hx. unfold rs1 in Hx. apply in_map_iff in Hx. destruct Hx as [a [<- Ha]].
        apply unskip_lt; auto.
      * exact HG1.
      * exact Hb'.
      * intros i j Hi Hj. rewrite Hl1 in Hi. rewrite Hent by assumption.
        assert (Ha : In (nth i rs 0) rs) by (apply nth_In; exact Hi).
        assert (E1 : nth i rs1 0 = unskip k (nth i rs 0)).
        { unfold rs1. rewrite (nth_indep _ 0 (unskip k 0)) by (rewrite map_length; exact Hi).
          apply map_nth. }
        rewrite E1. unfold M1. rewrite get_drop_row'; auto.
        -- rewrite skip_unskip; auto.
        -- apply unskip_lt; auto.
    + exfalso.
      assert (Hincl : incl (iota 0 m) rs).
      { intros x Hx. apply in_iota in Hx. destruct (in_dec Nat.eq_dec x rs) as [?|N]; auto.
        exfalso. apply (Hall x); [lia | exact N]. }
      pose proof (NoDup_incl_length (NoDup_iota m 0) Hincl) as Hle. rewrite length_iota in Hle. lia.
Qed.

Theorem GraphicP_submat_gen : forall m n M rs cs, wf_mat m n M = true ->
  nodupn rs = true -> all_lt m rs = true -> all_lt n cs = true ->
  GraphicP m n M -> GraphicP (length rs) (length cs) (submat M rs cs).
Proof.
  intros m n M rs cs _ Hnd Hr Hc HG.
  apply nodupn_NoDup in Hnd. rewrite BalancedProofs.all_lt_spec in Hr, Hc.
  assert (Hle : length rs <= m).
  { assert (Hincl : incl rs (iota 0 m)).
    { intros x Hx. apply in_iota. specialize (Hr x Hx). lia. }
    pose proof (NoDup_incl_length Hnd Hincl) as H. rewrite length_iota in H. exact H. }
  assert (Hb : is_binary M = true) by apply HG.
  assert (HG1 : GraphicP (length rs) n (submat M rs (iota 0 n))).
  { apply (GraphicP_rows_gen (m - length rs) m n M rs); auto; [lia | apply is_binary_submat; auto|].
    intros i j Hi Hj. rewrite SpProofs2.get_submat by (rewrite ?length_iota; assumption).
    rewrite RelProofs.nth_iota by assumption. reflexivity. }
  apply (GraphicP_cols_ext (length rs) n _ (length cs) _ (fun j => nth j cs 0) HG1).
  - apply is_binary_submat; auto.
  - intros j Hj. apply Hc. apply nth_In. exact Hj.
  - intros i j Hi Hj.
    assert (Hcj : nth j cs 0 < n) by (apply Hc; apply nth_In; exact Hj).
    rewrite !SpProofs2.get_submat by (rewrite ?length_iota; assumption).
    rewrite RelProofs.nth_iota by assumption. reflexivity.
Qed.
Print Assumptions GraphicP_submat_gen.

Theorem GraphicP_submat : forall m n M rs cs, wf_mat m n M = true ->
  strictly_increasing rs = true -> strictly_increasing cs = true ->
  all_lt m rs = true -> all_lt n cs = true ->
  GraphicP m n M -> GraphicP (length rs) (length cs) (submat M rs cs).
Proof.
  intros m n M rs cs Hwf Hsr _ Hr Hc HG.
  apply (GraphicP_submat_gen m n M rs cs); auto. apply BalancedProofs.si_nodupn. exact Hsr.
Qed.
Print Assumptions GraphicP_submat.

(* row and column permutations, both directions: the shape of kind 1 of judge_rel *)
Theorem GraphicP_perm_iff : forall m n M rp cp, wf_mat m n M = true -> is_binary M = true ->
  is_perm_l m rp = true -> is_perm_l n cp = true ->
  (GraphicP m n M <-> GraphicP m n (submat M rp cp)).
Proof.
  intros m n M rp cp Hwf Hb Hr Hc. split; [apply GraphicP_perm; auto|]. intros HG'.
  pose proof (is_perm_l_Permutation m rp Hr) as HPr.
  pose proof (is_perm_l_Permutation n cp Hc) as HPc.
  assert (Hlr : length rp = m) by (rewrite (Permutation_length HPr); apply length_iota).
  assert (Hlc : length cp = n) by (rewrite (Permutation_length HPc); apply length_iota).
  assert (Hinr : forall i, i < m -> In i rp).
  { intros i Hi. eapply Permutation_in; [apply Permutation_sym; exact HPr|]. apply in_iota. lia. }
  assert (Hinc : forall j, j < n -> In j cp).
  { intros j Hj. eapply Permutation_in; [apply Permutation_sym; exact HPc|]. apply in_iota. lia. }
  set (M' := submat M rp cp) in *.
  set (rq := map (fun i => RelProofs.index_of i rp) (iota 0 m)).
  set (cq := map (fun j => RelProofs.index_of j cp) (iota 0 n)).
  assert (Hwf' : wf_mat m n M' = true).
  { unfold M'. rewrite <- Hlr at 1. rewrite <- Hlc at 1. apply wf_submat. }
  assert (Hlrq : length rq = m) by (unfold rq; rewrite map_length; apply length_iota).
  assert (Hlcq : length cq = n) by (unfold cq; rewrite map_length; apply length_iota).
  assert (H : GraphicP (length rq) (length cq) (submat M' rq cq)).
  { apply (GraphicP_submat_gen m n M' rq cq); auto.
    - apply nodupn_NoDup. unfold rq. apply NoDup_map_inj_in; [|apply NoDup_iota].
      intros a b Ha Hb' E. apply in_iota in Ha. apply in_iota in Hb'.
      apply (RelProofs.index_of_inj a b rp); auto; apply Hinr; lia.
    - apply BalancedProofs.all_lt_spec. intros x Hx. unfold rq in Hx. apply in_map_iff in Hx.
      destruct Hx as [i [<- Hi]]. apply in_iota in Hi. rewrite <- Hlr. apply RelProofs.index_of_lt.
      apply Hinr. lia.
    - apply BalancedProofs.all_lt_spec. intros x Hx. unfold cq in Hx. apply in_map_iff in Hx.
      destruct Hx as [j [<- Hj]]. apply in_iota in Hj. rewrite <- Hlc. apply RelProofs.index_of_lt.
      apply Hinc. lia. }
  rewrite Hlrq, Hlcq in H.
  apply (GraphicP_ext m n _ M H Hb).
  intros i j Hi Hj.
  rewrite SpProofs2.get_submat by lia.
  unfold rq, cq. rewrite !nth_map_iota by assumption.
  unfold M'. rewrite SpProofs2.get_submat
    by (apply RelProofs.index_of_lt; auto).
  rewrite !RelProofs.nth_index_of by auto. reflexivity.
Qed.
Print Assumptions GraphicP_perm_iff.


(* ------------------------------------------------------------------------------------------ *)
(* 11. Non-vacuity and assumption audit of the supporting lemmas                                 *)
(* ------------------------------------------------------------------------------------------ *)

(* the triangle: [[1];[1]] is graphic, and so are the matrices obtained from it by the theorems above *)
Example tri_GraphicP : GraphicP 2 1 [[1%Z]; [1%Z]].
Proof. exact (cert_GraphicP _ _ _ _ _ _ tri_graph_accept eq_refl). Qed.

Example tri_contracted : GraphicP 1 1 [[1%Z]].
Proof. exact (GraphicP_delete_row 2 1 [[1%Z]; [1%Z]] 0 eq_refl (Nat.lt_0_succ 1) tri_GraphicP). Qed.

Print Assumptions is_forest_no_cycle.
Print Assumptions is_forest_remove.
Print Assumptions is_forest_contract.
Print Assumptions is_forest_subdivide.
Print Assumptions forest_trail_simple.
Print Assumptions GraphicP_iff.
Print Assumptions GraphicP_cols_ext.
Print Assumptions GraphicP_rowperm_ext.
Print Assumptions GraphicP_addcol_ext.
Print Assumptions GraphicP_addrow_pendant_ext.
Print Assumptions GraphicP_addrow_copy_ext.
Print Assumptions GraphicP_delrow_ext.
Print Assumptions GraphicP_rows_gen.
Print Assumptions tri_contracted.
