(* CliProofs.v — soundness of the command line judges of CliModel.v: a record that decodes and is judged 0 carries an
   output that agrees with the model computed from the input bytes. *)
From Coq Require Import String Ascii.
From Cmr Require Import Base BaseProofs Det TextModel TextProofs MatModel EdgeModel GraphModel SpModel TuModel CtuModel CliModel.
Local Open Scope Z_scope.

(* ========================================================================================== *)
(* 1. is_prefix / contains                                                                     *)
(* ========================================================================================== *)

Lemma is_prefix_spec : forall p t : list Z, is_prefix p t = true <-> exists b, t = List.app p b.
Proof.
  induction p as [|x p IH]; intros t.
  - cbn [is_prefix List.app]. split; [intros _; exists t; reflexivity | reflexivity].
  - destruct t as [|y t]; cbn [is_prefix List.app].
    + split; [discriminate | intros [b Hb]; discriminate].
    + rewrite andb_true_iff, Z.eqb_eq, IH. split.
      * intros [-> [b ->]]. exists b. reflexivity.
      * intros [b Hb]. inversion Hb; subst. split; [reflexivity | exists b; reflexivity].
Qed.

Theorem contains_spec : forall p t : list Z,
  contains p t = true <-> exists a b, t = List.app a (List.app p b).
Proof.
  intros p. induction t as [|y t IH].
  - cbn [contains]. rewrite orb_false_r, is_prefix_spec. split.
    + intros [b Hb]. exists [], b. exact Hb.
    + intros [a [b Hb]]. destruct a as [|z a]; [|discriminate]. exists b. exact Hb.
  - cbn [contains]. rewrite orb_true_iff, is_prefix_spec, IH. split.
    + intros [[b Hb]|[a [b Hb]]].
      * exists [], b. exact Hb.
      * exists (y :: a), b. cbn [List.app]. now rewrite Hb.
    + intros [a [b Hb]]. destruct a as [|z a].
      * left. exists b. exact Hb.
      * right. cbn [List.app] in Hb. inversion Hb; subst. exists a, b. reflexivity.
Qed.

(* ========================================================================================== *)
(* 2. cmr-matrix                                                                               *)
(* ========================================================================================== *)

Definition climat_input
  : dec (Z * Z * bool * Z * bool * list nat * list nat * list Z * Z * bool * list Z) :=
  infmt <- dZ ;; outfmt <- dZ ;; tr <- dbool ;; task <- dZ ;; hasS <- dbool ;; rs <- dlist dnat ;; cs <- dlist dnat ;;
  inb <- dlist dZ ;; rc <- dZ ;; hasout <- dbool ;; outb <- dlist dZ ;;
  dend (infmt, outfmt, tr, task, hasS, rs, cs, inb, rc, hasout, outb).

Lemma triple_eqb_eq' : forall (m n m' n' : nat) (R M : mat),
  Nat.eqb m m' && Nat.eqb n n' && mat_eqb R M = true -> m = m' /\ n = n' /\ R = M.
Proof.
  intros m n m' n' R M H. apply andb_true_iff in H. destruct H as [H H3].
  apply andb_true_iff in H. destruct H as [H1 H2].
  apply Nat.eqb_eq in H1. apply Nat.eqb_eq in H2. apply mat_eqb_eq in H3. auto.
Qed.

(* the common tail of the judges: rc, hasout, parsed output equal to the expected matrix *)
Lemma out_tail_sound : forall (rc : Z) (hasout : bool) (outfmt ty : Z) (outb : list Z) (m2 n2 : nat) (M2 : mat) (e1 e2 e3 e4 : Z),
  e1 <> 0 -> e2 <> 0 -> e3 <> 0 -> e4 <> 0 ->
  (if negb (rc =? 0) then e1
   else if negb hasout then e2
   else match parse outfmt ty outb with
        | TErr => e3
        | TOk m' n' M' => if Nat.eqb m' m2 && Nat.eqb n' n2 && mat_eqb M' M2 then 0 else e4
        end) = 0 ->
  rc = 0 /\ hasout = true /\ parse outfmt ty outb = TOk m2 n2 M2.
Proof.
  intros rc hasout outfmt ty outb m2 n2 M2 e1 e2 e3 e4 H1 H2 H3 H4 Hj.
  destruct (Z.eqb_spec rc 0) as [Hrc|Hrc]; cbn [negb] in Hj; [|contradiction].
  destruct hasout; cbn [negb] in Hj; [|contradiction].
  destruct (parse outfmt ty outb) as [m' n' M'|]; [|contradiction].
  destruct (Nat.eqb m' m2 && Nat.eqb n' n2 && mat_eqb M' M2) eqn:E; [|contradiction].
  apply triple_eqb_eq' in E. destruct E as [-> [-> ->]]. auto.
Qed.

Theorem judge_climat_sound : forall rec infmt outfmt tr task hasS rs cs inb rc hasout outb rest,
  climat_input rec = Some ((infmt, outfmt, tr, task, hasS, rs, cs, inb, rc, hasout, outb), rest) ->
  judge_climat rec = 0 ->
  (forall m n M m2 n2 M2,
     parse infmt 1 inb = TOk m n M ->
     climat_expected hasS rs cs tr task (m, n, M) = Some (m2, n2, M2) ->
     rc = 0 /\ hasout = true /\ parse outfmt 1 outb = TOk m2 n2 M2) /\
  (parse infmt 1 inb = TErr -> hasout = false \/ outb = []).
Proof.
  intros rec infmt outfmt tr task hasS rs cs inb rc hasout outb rest Hdec Hj.
  unfold judge_climat in Hj. unfold climat_input in Hdec. rewrite Hdec in Hj. cbv beta iota in Hj.
  split.
  - intros m n M m2 n2 M2 HP HE. rewrite HP in Hj. cbv beta iota in Hj. rewrite HE in Hj. cbv beta iota in Hj.
    eapply out_tail_sound; [| | | |exact Hj]; discriminate.
  - intros HP. rewrite HP in Hj. cbv beta iota in Hj.
    destruct hasout; [|now left]. right.
    destruct outb as [|x outb]; [reflexivity|]. cbn in Hj. discriminate.
Qed.

(* ========================================================================================== *)
(* 3. cmr-graphic -c / cmr-network -c                                                          *)
(* ========================================================================================== *)

Definition cligraph_input : dec (bool * bool * Z * list Z * Z * bool * list Z) :=
  signed <- dbool ;; tr <- dbool ;; outfmt <- dZ ;; inb <- dlist dZ ;; rc <- dZ ;; hasout <- dbool ;; outb <- dlist dZ ;;
  dend (signed, tr, outfmt, inb, rc, hasout, outb).

Theorem judge_cligraph_sound : forall rec signed tr outfmt inb rc hasout outb rest G f c T C,
  cligraph_input rec = Some ((signed, tr, outfmt, inb, rc, hasout, outb), rest) ->
  judge_cligraph rec = 0 ->
  edgelist_graph inb = Some (G, f, c) ->
  is_spanning_forest G f = true ->
  lookup_all (g_edges G) f = Some T ->
  lookup_all (g_edges G) c = Some C ->
  rc = 0 /\ hasout = true /\
  parse outfmt 0 outb =
    (if tr then TOk (List.length C) (List.length T) (transpose (List.length T) (List.length C) (rep_matrix signed T C))
     else TOk (List.length T) (List.length C) (rep_matrix signed T C)).
Proof.
  intros rec signed tr outfmt inb rc hasout outb rest G f c T C Hdec Hj HG HF HT HC.
  unfold judge_cligraph in Hj. unfold cligraph_input in Hdec. rewrite Hdec in Hj. cbv beta iota in Hj.
  rewrite HG in Hj. cbv beta iota in Hj. rewrite HF in Hj. cbn [negb] in Hj. cbv beta iota in Hj.
  rewrite HT, HC in Hj. cbv beta iota zeta in Hj.
  destruct tr; cbv beta iota in Hj; (eapply out_tail_sound; [| | | |exact Hj]; discriminate).
Qed.

(* ========================================================================================== *)
(* 4. verdict lines                                                                            *)
(* ========================================================================================== *)

Definition cliverdict_input : dec (Z * Z * Z * list Z * Z * list Z) :=
  tool <- dZ ;; variant <- dZ ;; infmt <- dZ ;; inb <- dlist dZ ;; rc <- dZ ;; txt <- dlist dZ ;;
  dend (tool, variant, infmt, inb, rc, txt).

Theorem judge_cliverdict_sound : forall rec tool variant infmt inb rc txt rest m n M name expected,
  cliverdict_input rec = Some ((tool, variant, infmt, inb, rc, txt), rest) ->
  judge_cliverdict rec = 0 ->
  parse infmt 1 inb = TOk m n M ->
  verdict_spec tool variant m n M = Some (name, expected) ->
  rc = 0 /\
  contains (List.app (zs "Matrix IS "%string) (zs name)) txt = expected /\
  contains (List.app (zs "NOT "%string) (zs name)) txt = negb expected.
Proof.
  intros rec tool variant infmt inb rc txt rest m n M name expected Hdec Hj HP HV.
  unfold judge_cliverdict in Hj. unfold cliverdict_input in Hdec. rewrite Hdec in Hj. cbv beta iota in Hj.
  rewrite HP in Hj. cbv beta iota in Hj. rewrite HV in Hj. cbv beta iota zeta in Hj.
  destruct (Z.eqb_spec rc 0) as [Hrc|Hrc]; cbn [negb] in Hj; [|discriminate].
  split; [assumption|].
  destruct (contains (List.app (zs "Matrix IS "%string) (zs name)) txt) eqn:EY;
  destruct (contains (List.app (zs "NOT "%string) (zs name)) txt) eqn:EN;
  destruct expected; cbn in Hj; try discriminate; auto.
Qed.

(* ========================================================================================== *)
(* 5. violator files                                                                           *)
(* ========================================================================================== *)

Definition clisub_input : dec (Z * Z * Z * list Z * Z * bool * list Z) :=
  tool <- dZ ;; variant <- dZ ;; infmt <- dZ ;; inb <- dlist dZ ;; rc <- dZ ;; hasout <- dbool ;; outb <- dlist dZ ;;
  dend (tool, variant, infmt, inb, rc, hasout, outb).

Theorem judge_clisub_sound : forall rec tool variant infmt inb rc hasout outb rest m n M name has_property,
  clisub_input rec = Some ((tool, variant, infmt, inb, rc, hasout, outb), rest) ->
  judge_clisub rec = 0 ->
  parse infmt 1 inb = TOk m n M ->
  verdict_spec (if tool =? 14 then 4 else tool) variant m n M = Some (name, has_property) ->
  rc = 0 /\
  (tool = 0 -> has_property = false ->
     exists rs cs, hasout = true /\ parse_submat_file outb = Some (m, n, rs, cs) /\
                   check_min_violator m n M rs cs = true) /\
  (tool = 4 -> has_property = false ->
     exists rs cs, hasout = true /\ parse_submat_file outb = Some (m, n, rs, cs) /\
                   check_sp_violator (variant =? 0) m n M rs cs = true) /\
  (tool = 5 -> has_property = false ->
     exists rs cs, hasout = true /\ parse_submat_file outb = Some (m, n, rs, cs) /\
                   check_unbalanced m n M rs cs = true) /\
  (tool <> 14 -> has_property = true -> hasout = false).
Proof.
  intros rec tool variant infmt inb rc hasout outb rest m n M name has_property Hdec Hj HP HV.
  unfold judge_clisub in Hj. unfold clisub_input in Hdec. rewrite Hdec in Hj. cbv beta iota in Hj.
  rewrite HP in Hj. cbv beta iota zeta in Hj. rewrite HV in Hj. cbv beta iota in Hj.
  destruct (Z.eqb_spec rc 0) as [Hrc|Hrc]; cbn [negb] in Hj; [|discriminate].
  split; [assumption|].
  assert (Hviol : tool <> 14 -> has_property = false ->
            exists rs cs, hasout = true /\ parse_submat_file outb = Some (m, n, rs, cs) /\
              (if tool =? 0 then (if check_min_violator m n M rs cs then 0 else 372)
               else if tool =? 4 then (if check_sp_violator (variant =? 0) m n M rs cs then 0 else 372)
               else if tool =? 5 then (if check_unbalanced m n M rs cs then 0 else 372)
               else 0) = 0).
  { intros Ht Hp. subst has_property.
    destruct (Z.eqb_spec tool 14) as [E14|E14]; [contradiction|].
    destruct hasout; cbn [negb orb] in Hj; [|discriminate].
    destruct (parse_submat_file outb) as [[[[m' n'] rs] cs]|]; [|discriminate].
    destruct (Nat.eqb m' m && Nat.eqb n' n) eqn:E; cbn [negb] in Hj; [|discriminate].
    apply andb_true_iff in E. destruct E as [E1 E2]. apply Nat.eqb_eq in E1. apply Nat.eqb_eq in E2. subst m' n'.
    exists rs, cs. split; [reflexivity|]. split; [reflexivity|]. exact Hj. }
  split; [|split; [|split]].
  - intros Ht Hp. destruct Hviol as [rs [cs [H1 [H2 H3]]]]; [subst tool; discriminate | assumption |].
    exists rs, cs. split; [assumption|]. split; [assumption|].
    subst tool. cbn in H3. destruct (check_min_violator m n M rs cs); [reflexivity | discriminate].
  - intros Ht Hp. destruct Hviol as [rs [cs [H1 [H2 H3]]]]; [subst tool; discriminate | assumption |].
    exists rs, cs. split; [assumption|]. split; [assumption|].
    subst tool. cbn [Z.eqb Pos.eqb] in H3.
    destruct (check_sp_violator (variant =? 0) m n M rs cs); [reflexivity | discriminate].
  - intros Ht Hp. destruct Hviol as [rs [cs [H1 [H2 H3]]]]; [subst tool; discriminate | assumption |].
    exists rs, cs. split; [assumption|]. split; [assumption|].
    subst tool. cbn [Z.eqb Pos.eqb] in H3.
    destruct (check_unbalanced m n M rs cs); [reflexivity | discriminate].
  - intros Ht Hp. subst has_property.
    destruct (Z.eqb_spec tool 14) as [E14|E14]; [contradiction|].
    destruct hasout; [|reflexivity]. cbn [negb] in Hj.
    destruct (parse_submat_file outb) as [[[[m' n'] rs] cs]|]; [|discriminate].
    destruct (negb (Nat.eqb m' m && Nat.eqb n' n)); discriminate.
Qed.

(* ========================================================================================== *)
(* 6. cmr-ctu, complement operations                                                           *)
(* ========================================================================================== *)

Definition clictu_input : dec (Z * Z * Z * Z * Z * list Z * Z * bool * list Z) :=
  mode <- dZ ;; r <- dZ ;; c <- dZ ;; infmt <- dZ ;; outfmt <- dZ ;; inb <- dlist dZ ;; rc <- dZ ;; hasout <- dbool ;;
  outb <- dlist dZ ;; dend (mode, r, c, infmt, outfmt, inb, rc, hasout, outb).

Theorem judge_clictu_sound : forall rec mode r c infmt outfmt inb rc hasout outb rest m n M,
  clictu_input rec = Some ((mode, r, c, infmt, outfmt, inb, rc, hasout, outb), rest) ->
  judge_clictu rec = 0 ->
  mode = 2 ->
  parse infmt 0 inb = TOk m n M ->
  is_binary M = true ->
  opt_lt (opt_of r) m && opt_lt (opt_of c) n = true ->
  (r <? 0) && (c <? 0) = false ->
  rc = 0 /\ hasout = true /\ parse outfmt 0 outb = TOk m n (complement_spec m n M (opt_of r) (opt_of c)).
Proof.
  intros rec mode r c infmt outfmt inb rc hasout outb rest m n M Hdec Hj Hm HP HB HO HN.
  unfold judge_clictu in Hj. unfold clictu_input in Hdec. rewrite Hdec in Hj. cbv beta iota in Hj.
  rewrite HP in Hj. cbv beta iota in Hj. rewrite HB in Hj. cbn [negb] in Hj. cbv beta iota in Hj.
  subst mode. change (2 =? 2) with true in Hj. cbv beta iota in Hj.
  rewrite HO, HN in Hj. cbn [negb orb] in Hj. cbv beta iota in Hj.
  eapply out_tail_sound; [| | | |exact Hj]; discriminate.
Qed.

(* ========================================================================================== *)
(* 7. cmr-graphic / cmr-network -G: the written graph is a certificate                         *)
(* ========================================================================================== *)

Definition cligraphout_input : dec (bool * bool * Z * list Z * Z * bool * list Z) :=
  signed <- dbool ;; co <- dbool ;; infmt <- dZ ;; inb <- dlist dZ ;; rc <- dZ ;; hasout <- dbool ;; outb <- dlist dZ ;;
  dend (signed, co, infmt, inb, rc, hasout, outb).

Theorem judge_cligraphout_sound : forall rec signed co infmt inb rc hasout outb rest m n M,
  cligraphout_input rec = Some ((signed, co, infmt, inb, rc, hasout, outb), rest) ->
  judge_cligraphout rec = 0 ->
  parse infmt 1 inb = TOk m n M ->
  (if signed then is_ternary M else is_binary M) = true ->
  hasout = true ->
  rc = 0 /\
  exists G rowedges coledges,
    edgelist_graph outb = Some (G, rowedges, coledges) /\
    List.length rowedges = m /\ List.length coledges = n /\
    let '(f, c, MM) := if co then (coledges, rowedges, transpose m n M) else (rowedges, coledges, M) in
    is_spanning_forest G f = true /\
    exists T C, lookup_all (g_edges G) f = Some T /\ lookup_all (g_edges G) c = Some C /\
                rep_matrix signed T C = MM.
Proof.
  intros rec signed co infmt inb rc hasout outb rest m n M Hdec Hj HP HK HO.
  unfold judge_cligraphout in Hj. unfold cligraphout_input in Hdec. rewrite Hdec in Hj. cbv beta iota in Hj.
  rewrite HP in Hj. cbv beta iota in Hj. rewrite HK in Hj. cbn [negb] in Hj. cbv beta iota in Hj.
  destruct (Z.eqb_spec rc 0) as [Hrc|Hrc]; cbn [negb] in Hj; [|discriminate].
  split; [assumption|].
  subst hasout. cbn [negb] in Hj. cbv beta iota in Hj.
  destruct (edgelist_graph outb) as [[[G rowedges] coledges]|]; [|discriminate].
  exists G, rowedges, coledges. split; [reflexivity|].
  destruct (Nat.eqb (List.length rowedges) m && Nat.eqb (List.length coledges) n) eqn:E; cbn [negb] in Hj; [|discriminate].
  apply andb_true_iff in E. destruct E as [E1 E2]. apply Nat.eqb_eq in E1. apply Nat.eqb_eq in E2.
  split; [assumption|]. split; [assumption|].
  destruct co; cbv beta iota zeta in Hj |- *.
  - destruct (is_spanning_forest G coledges); cbn [negb] in Hj; [|discriminate]. split; [reflexivity|].
    destruct (lookup_all (g_edges G) coledges) as [T|]; [|discriminate].
    destruct (lookup_all (g_edges G) rowedges) as [C|]; [|discriminate].
    exists T, C. split; [reflexivity|]. split; [reflexivity|].
    destruct (mat_eqb (rep_matrix signed T C) (transpose m n M)) eqn:EM; [|discriminate].
    now apply mat_eqb_eq.
  - destruct (is_spanning_forest G rowedges); cbn [negb] in Hj; [|discriminate]. split; [reflexivity|].
    destruct (lookup_all (g_edges G) rowedges) as [T|]; [|discriminate].
    destruct (lookup_all (g_edges G) coledges) as [C|]; [|discriminate].
    exists T, C. split; [reflexivity|]. split; [reflexivity|].
    destruct (mat_eqb (rep_matrix signed T C) M) eqn:EM; [|discriminate].
    now apply mat_eqb_eq.
Qed.

(* ========================================================================================== *)
(* 8. cmr-matrix -d: tolerance signs                                                           *)
(* ========================================================================================== *)

Theorem tol_sign_spec : forall mant ex : Z,
  (tol_sign (mant, ex) = 0 <->
     (if 0 <=? ex + 9 then Z.abs mant * 10 ^ (ex + 9) <= 1 else Z.abs mant <= 10 ^ (- (ex + 9)))) /\
  (tol_sign (mant, ex) = 1 -> 0 < mant) /\
  (tol_sign (mant, ex) = -1 -> mant < 0) /\
  (tol_sign (mant, ex) = 0 \/ tol_sign (mant, ex) = 1 \/ tol_sign (mant, ex) = -1).
Proof.
  intros mant ex. unfold tol_sign. cbv zeta.
  destruct (0 <=? ex + 9) eqn:E.
  - assert (Hp : 0 < 10 ^ (ex + 9)) by (apply Z.pow_pos_nonneg; lia).
    destruct (Z.ltb_spec 1 (Z.abs mant * 10 ^ (ex + 9))) as [H|H].
    + assert (Hm : mant <> 0) by (intros ->; cbn in H; lia).
      destruct (Z.ltb_spec mant 0) as [H0|H0]; repeat split; try discriminate; try lia; auto.
    + repeat split; try discriminate; try lia; auto.
  - destruct (Z.ltb_spec (10 ^ (- (ex + 9))) (Z.abs mant)) as [H|H].
    + assert (Hp : 0 <= 10 ^ (- (ex + 9))) by (apply Z.pow_nonneg; lia).
      assert (Hm : mant <> 0) by (intros ->; cbn in H; lia).
      destruct (Z.ltb_spec mant 0) as [H0|H0]; repeat split; try discriminate; try lia; auto.
    + repeat split; try discriminate; try lia; auto.
Qed.

Definition climatd_input
  : dec (Z * Z * bool * Z * bool * list nat * list nat * list Z * Z * bool * list Z) := climat_input.

Theorem judge_climatd_sound : forall rec infmt outfmt tr task hasS rs cs inb rc hasout outb rest m n Sg m2 n2 M2,
  climatd_input rec = Some ((infmt, outfmt, tr, task, hasS, rs, cs, inb, rc, hasout, outb), rest) ->
  judge_climatd rec = 0 ->
  task = 1 \/ task = 2 ->
  parse_dbl_signs infmt inb = TOk m n Sg ->
  climat_expected hasS rs cs tr task (m, n, Sg) = Some (m2, n2, M2) ->
  rc = 0 /\ hasout = true /\ parse outfmt 1 outb = TOk m2 n2 M2.
Proof.
  intros rec infmt outfmt tr task hasS rs cs inb rc hasout outb rest m n Sg m2 n2 M2 Hdec Hj Ht HP HE.
  unfold judge_climatd in Hj. unfold climatd_input, climat_input in Hdec. rewrite Hdec in Hj. cbv beta iota in Hj.
  assert (Htk : (task =? 1) || (task =? 2) = true) by (destruct Ht; subst task; reflexivity).
  rewrite Htk in Hj. cbn [negb] in Hj. cbv beta iota in Hj.
  rewrite HP in Hj. cbv beta iota in Hj. rewrite HE in Hj. cbv beta iota in Hj.
  eapply out_tail_sound; [| | | |exact Hj]; discriminate.
Qed.

Print Assumptions is_prefix_spec.
Print Assumptions contains_spec.
Print Assumptions judge_climat_sound.
Print Assumptions judge_cligraph_sound.
Print Assumptions judge_cliverdict_sound.
Print Assumptions judge_clisub_sound.
Print Assumptions judge_clictu_sound.
Print Assumptions judge_cligraphout_sound.
Print Assumptions tol_sign_spec.
Print Assumptions judge_climatd_sound.
