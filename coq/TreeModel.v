(* TreeModel.v — Seymour decomposition trees as dumped by the harness, the recomposition checker for
   every node type (C03) and the flag / certificate checker (C04).  No proofs here. *)
From Cmr Require Import Base Det PivotModel TuModel SpModel GraphModel KsumModel.
Local Open Scope Z_scope.

(* node types (seymour.h) *)
Definition T_IRREGULAR := -1. Definition T_UNKNOWN := 0. Definition T_SP := 1. Definition T_PIVOTS := 2.
Definition T_GRAPH := 3. Definition T_COGRAPH := 4. Definition T_PLANAR := 5. Definition T_R10 := 6.
Definition T_ONESUM := 7. Definition T_TWOSUM := 8. Definition T_DELTASUM := 9. Definition T_THREESUM := 10.
Definition T_YSUM := 11.

Record link := { l_rows : list Z; l_cols : list Z; l_sr : list nat; l_sc : list nat }.
Record gcert := { gc_graph : graph; gc_forest : list nat; gc_coforest : list nat; gc_rev : list nat }.
Record minor := { mn_type : Z; mn_pr : list nat; mn_pc : list nat; mn_sub : option (list nat * list nat) }.

Record ninfo := {
  t_type : Z; t_tern : bool; t_reg : Z; t_gra : Z; t_cog : Z;
  t_m : nat; t_n : nat; t_M : mat;
  t_links : list link;
  t_pivr : list nat; t_pivc : list nat;
  t_reds : list (Z * Z);
  t_graph : option gcert; t_cograph : option gcert;
  t_minors : list minor }.

Inductive tree := TNode (i : ninfo) (ch : list tree).

Definition dlink : dec link :=
  r <- dlist dZ ;; c <- dlist dZ ;; sr <- dlist dnat ;; sc <- dlist dnat ;;
  dret {| l_rows := r; l_cols := c; l_sr := sr; l_sc := sc |}.
Definition dgcert : dec (option gcert) :=
  h <- dbool ;;
  if h then (G <- dgraph ;; f <- dlist dnat ;; c <- dlist dnat ;; r <- dlist dnat ;;
             dret (Some {| gc_graph := G; gc_forest := f; gc_coforest := c; gc_rev := r |}))
  else dret None.
Definition dminor : dec minor :=
  t <- dZ ;; pr <- dlist dnat ;; pc <- dlist dnat ;; h <- dbool ;;
  s <- (if h then (rs <- dlist dnat ;; cs <- dlist dnat ;; dret (Some (rs, cs))) else dret None) ;;
  dret {| mn_type := t; mn_pr := pr; mn_pc := pc; mn_sub := s |}.
Definition dpair : dec (Z * Z) := a <- dZ ;; b <- dZ ;; dret (a, b).

Definition dninfo : dec ninfo :=
  ty <- dZ ;; tern <- dbool ;; reg <- dZ ;; gra <- dZ ;; cog <- dZ ;;
  x <- dmat ;; links <- dlist dlink ;;
  pr <- dlist dnat ;; pc <- dlist dnat ;; reds <- dlist dpair ;;
  g <- dgcert ;; cg <- dgcert ;; mins <- dlist dminor ;;
  let '(m, n, M) := x in
  dret {| t_type := ty; t_tern := tern; t_reg := reg; t_gra := gra; t_cog := cog;
          t_m := m; t_n := n; t_M := M; t_links := links; t_pivr := pr; t_pivc := pc; t_reds := reds;
          t_graph := g; t_cograph := cg; t_minors := mins |}.

(* pre-order: node info, then its children (as many as it has links) *)
Fixpoint dtree (fuel : nat) : dec tree :=
  match fuel with
  | O => fun _ => None
  | S f => i <- dninfo ;; ch <- drep (dtree f) (length (t_links i)) ;; dret (TNode i ch)
  end.

Definition info (t : tree) : ninfo := match t with TNode i _ => i end.

(* ---------- element maps ---------- *)
Definition row_of (e : Z) : option nat := if e <? 0 then Some (Z.to_nat (- e - 1)) else None.
Definition col_of (e : Z) : option nat := if 0 <? e then Some (Z.to_nat (e - 1)) else None.
Fixpoint all_some {A} (l : list (option A)) : option (list A) :=
  match l with
  | [] => Some []
  | Some x :: r => match all_some r with Some r' => Some (x :: r') | None => None end
  | None :: _ => None
  end.
Definition rows_of (es : list Z) (keep : list nat) : option (list nat) :=
  all_some (map (fun i => row_of (nthZ es i)) keep).
Definition cols_of (es : list Z) (keep : list nat) : option (list nat) :=
  all_some (map (fun i => col_of (nthZ es i)) keep).

Definition is_perm (k : nat) (l : list nat) : bool := Nat.eqb (length l) k && all_lt k l && nodupn l.

Definition charp (tern : bool) : Z := if tern then 3 else 2.

(* the composed matrix Mc, whose lines correspond to parent rows prow / columns pcol, is the parent matrix *)
Definition matches_parent (P : ninfo) (Mc : mat) (prow pcol : list nat) : bool :=
  is_perm (t_m P) prow && is_perm (t_n P) pcol && mat_eqb Mc (submat (t_M P) prow pcol).

Definition code_if (b : bool) (c : Z) : Z := if b then 0 else c.

(* ---------- k-sum nodes ---------- *)

(* 2-sum nodes store no special lines: child 0 = [A; c^T] has exactly one row that maps to a parent row of the
   other part (a row that child 1 also maps to), child 1 = [d D] has exactly one column that child 0 also maps to *)
Definition shared_index (mine theirs : list Z) : list nat :=
  filter (fun i => existsb (fun e => Z.eqb e (nthZ mine i)) theirs) (iota 0 (length mine)).

Definition check_sum (P : ninfo) (kind : Z) (L0 L1 : link) (C0 C1 : ninfo) : Z :=
  let p := charp (t_tern P) in
  let '(fsr, fsc, ssr, ssc) :=
    if kind =? 2 then (shared_index (l_rows L0) (l_rows L1), [], [], shared_index (l_cols L1) (l_cols L0))
    else (l_sr L0, l_sc L0, l_sr L1, l_sc L1) in
  match ksum kind p (t_m C0) (t_n C0) (t_M C0) (t_m C1) (t_n C1) (t_M C1) fsr fsc ssr ssc with
  | KErr => 201
  | KOk Mc =>
    let k0r := keep_idx (t_m C0) (removed_rows kind true fsr) in
    let k0c := keep_idx (t_n C0) (removed_cols kind true fsc) in
    let k1r := keep_idx (t_m C1) (removed_rows kind false ssr) in
    let k1c := keep_idx (t_n C1) (removed_cols kind false ssc) in
    match rows_of (l_rows L0) k0r, rows_of (l_rows L1) k1r, cols_of (l_cols L0) k0c, cols_of (l_cols L1) k1c with
    | Some r0, Some r1, Some c0, Some c1 => code_if (matches_parent P Mc (r0 ++ r1) (c0 ++ c1)) 203
    | _, _, _, _ => 202
    end
  end.

(* ---------- 1-sum nodes ---------- *)
Fixpoint block_diag_of (Ms : list (nat * nat * mat)) : nat * nat * mat :=
  match Ms with
  | [] => (O, O, [])
  | (m, n, M) :: rest =>
    let '(m', n', R) := block_diag_of rest in
    ((m + m')%nat, (n + n')%nat, block4 M (zeros m n') (zeros m' n) R)
  end.

Definition check_onesum (P : ninfo) (links : list link) (Cs : list ninfo) : Z :=
  if Nat.ltb (length Cs) 2 then 210
  else
    let '(m, n, Mc) := block_diag_of (map (fun c => (t_m c, t_n c, t_M c)) Cs) in
    match all_some (map (fun lc => rows_of (l_rows (fst lc)) (iota 0 (t_m (snd lc)))) (combine links Cs)),
          all_some (map (fun lc => cols_of (l_cols (fst lc)) (iota 0 (t_n (snd lc)))) (combine links Cs)) with
    | Some rs, Some cs => code_if (matches_parent P Mc (concat rs) (concat cs)) 212
    | _, _ => 211
    end.

(* ---------- pivot nodes ---------- *)
Fixpoint find_pos_from (k : nat) (x : nat) (l : list nat) : option nat :=
  match l with
  | [] => None
  | y :: r => if Nat.eqb x y then Some k else find_pos_from (S k) x r
  end.
Definition find_pos (x : nat) (l : list nat) : option nat := find_pos_from 0 x l.

Definition check_pivots (P : ninfo) (L : link) (C : ninfo) : Z :=
  let q := charp (t_tern P) in
  if negb (Nat.eqb (length (t_pivr P)) (length (t_pivc P)) && negb (Nat.eqb (length (t_pivr P)) 0) &&
           nodupn (t_pivr P) && nodupn (t_pivc P) && all_lt (t_m P) (t_pivr P) && all_lt (t_n P) (t_pivc P)) then 220
  else
    match pivots q (t_m P) (t_n P) (t_M P) (t_pivr P) (t_pivc P) [] [] with
    | POk R =>
      if negb (Nat.eqb (t_m C) (t_m P) && Nat.eqb (t_n C) (t_n P) && mat_eqb (t_M C) (reduce q R)) then 221
      else
        (* child row r is parent row r, except that a pivot row becomes the pivot column's element and vice versa *)
        let expect_row (r : nat) : Z :=
          match find_pos r (t_pivr P) with
          | Some k => Z.of_nat (nthn (t_pivc P) k) + 1
          | None => - Z.of_nat r - 1 end in
        let expect_col (c : nat) : Z :=
          match find_pos c (t_pivc P) with
          | Some k => - Z.of_nat (nthn (t_pivr P) k) - 1
          | None => Z.of_nat c + 1 end in
        code_if (zlist_eqb (l_rows L) (map expect_row (iota 0 (t_m P))) &&
                 zlist_eqb (l_cols L) (map expect_col (iota 0 (t_n P)))) 222
    | _ => 223
    end.

(* ---------- series-parallel nodes ---------- *)
(* the recorded reductions are genuine one after another; the child (if any) is exactly the submatrix of the
   surviving lines, which the child's maps name; without a child everything must have been removed *)
Definition check_sp_node (P : ninfo) (links : list link) (Cs : list ninfo) : Z :=
  let ereds := map (fun pr => (elem_of_Z (fst pr), elem_of_Z (snd pr))) (t_reds P) in
  match apply_reds (t_tern P) (t_M P) (all_true (t_m P)) (all_true (t_n P)) ereds with
  | None => 230
  | Some (lr, lc) =>
    match links, Cs with
    | [], [] => code_if (is_empty lr lc) 231
    | [L], [C] =>
      match rows_of (l_rows L) (iota 0 (t_m C)), cols_of (l_cols L) (iota 0 (t_n C)) with
      | Some rs, Some cs =>
        if negb (all_lt (t_m P) rs && all_lt (t_n P) cs && nodupn rs && nodupn cs) then 233
        else if negb (same_set rs (live_list lr) && same_set cs (live_list lc)) then 234
        else code_if (mat_eqb (t_M C) (submat (t_M P) rs cs)) 235
      | _, _ => 232
      end
    | _, _ => 236
    end
  end.

(* ---------- leaves and certificates (C04) ---------- *)

Definition check_gcert (tern : bool) (m n : nat) (M : mat) (g : gcert) : bool :=
  if tern then check_network_cert m n M (gc_graph g) (gc_rev g) (gc_forest g) (gc_coforest g)
  else check_graph_cert m n M (gc_graph g) (gc_forest g) (gc_coforest g).

(* the two 5x5 representations of R10 (support), up to row and column permutations: decided by the invariant
   "every line has 3 nonzeros, or exactly one row and one column have 5 and the others 3" together with
   regularity of the support computed by the oracle *)
Fixpoint insert_all (x : nat) (l : list nat) : list (list nat) :=
  match l with
  | [] => [[x]]
  | y :: r => (x :: l) :: map (cons y) (insert_all x r)
  end.
Fixpoint perms (l : list nat) : list (list nat) :=
  match l with
  | [] => [[]]
  | x :: r => flat_map (insert_all x) (perms r)
  end.
Definition R10a : mat := [[1;1;0;0;1];[1;1;1;0;0];[0;1;1;1;0];[0;0;1;1;1];[1;0;0;1;1]].
Definition R10b : mat := [[1;0;0;1;1];[1;1;0;0;1];[0;1;1;0;1];[0;0;1;1;1];[1;1;1;1;1]].
Definition is_R10 (P : ninfo) : bool :=
  Nat.eqb (t_m P) 5 && Nat.eqb (t_n P) 5 &&
  (let S := support (t_M P) in
   existsb (fun rp => existsb (fun cp => let N := submat S rp cp in mat_eqb N R10a || mat_eqb N R10b)
                              (perms (iota 0 5))) (perms (iota 0 5))) &&
  (if t_tern P then tu_bf 5 5 (t_M P) else true).

Definition small_node (P : ninfo) : bool := Nat.leb (t_m P * t_n P) 36.

(* truth of the regularity flag, where the oracle applies *)
Definition oracle_regular (P : ninfo) : bool :=
  if t_tern P then tu_bf (t_m P) (t_n P) (t_M P) else regular_bf (t_m P) (t_n P) (t_M P).

Definition check_minor (P : ninfo) (mn : minor) : bool :=
  if mn_type mn =? -2 then   (* determinant type: a submatrix of the node's matrix with |det| >= 2, no pivots *)
    match mn_pr mn, mn_pc mn, mn_sub mn with
    | [], [], Some (rs, cs) => check_violator (t_m P) (t_n P) (t_M P) rs cs
    | _, _, _ => false
    end
  else true.

(* shape of a determinant-type minor: no pivots, a square, duplicate-free submatrix within the node's matrix *)
Definition minor_shape_ok (P : ninfo) (mn : minor) : bool :=
  if mn_type mn =? -2 then
    match mn_pr mn, mn_pc mn, mn_sub mn with
    | [], [], Some (rs, cs) =>
      Nat.eqb (length rs) (length cs) && all_lt (t_m P) rs && all_lt (t_n P) cs && nodupn rs && nodupn cs
    | _, _, _ => false
    end
  else true.

Definition check_flags (P : ninfo) : Z :=
  let M := t_M P in let m := t_m P in let n := t_n P in
  (* stored graphs reproduce the matrix *)
  if negb (match t_graph P with Some g => check_gcert (t_tern P) m n M g | None => true end) then 240
  else if negb (match t_cograph P with
                | Some g => check_gcert (t_tern P) n m (transpose m n M) g | None => true end) then 241
  else if negb (forallb (minor_shape_ok P) (t_minors P)) then 243
  else if negb (forallb (check_minor P) (t_minors P)) then 242
  (* node types *)
  else if (t_type P =? T_R10) && negb (is_R10 P) then 244
  (* flags against the oracles on small nodes *)
  else if small_node P && (0 <? t_reg P) && negb (oracle_regular P) then 245
  else if small_node P && (t_reg P <? 0) && oracle_regular P then 246
  else if (t_type P =? T_IRREGULAR) && small_node P && oracle_regular P then 247
  else if Nat.leb m 4 && (0 <? t_gra P) && negb (graphic_bf m n (support M)) then 248
  else if Nat.leb m 4 && (t_gra P <? 0) && graphic_bf m n (support M) &&
          (if t_tern P then false else true) then 249
  else if Nat.leb n 4 && (0 <? t_cog P) && negb (graphic_bf n m (transpose m n (support M))) then 250
  else if Nat.leb n 4 && (t_cog P <? 0) && graphic_bf n m (transpose m n (support M)) &&
          (if t_tern P then false else true) then 251
  else if ((t_type P =? T_GRAPH) || (t_type P =? T_PLANAR)) && Nat.leb m 4 && negb (graphic_bf m n (support M)) then 252
  else if ((t_type P =? T_COGRAPH) || (t_type P =? T_PLANAR)) && Nat.leb n 4 &&
          negb (graphic_bf n m (transpose m n (support M))) then 253
  else 0.

(* ---------- one node with its children; the whole tree ---------- *)
Definition check_node (P : ninfo) (Cs : list ninfo) : Z :=
  let ty := t_type P in
  let links := t_links P in
  if negb (wf_mat (t_m P) (t_n P) (t_M P) && (if t_tern P then is_ternary (t_M P) else is_binary (t_M P))) then 260
  else if negb (Nat.eqb (length links) (length Cs)) then 261
  else if negb (forallb (fun lc => Nat.eqb (length (l_rows (fst lc))) (t_m (snd lc)) &&
                                   Nat.eqb (length (l_cols (fst lc))) (t_n (snd lc)) &&
                                   Bool.eqb (t_tern (snd lc)) (t_tern P)) (combine links Cs)) then 262
  else
    let structural :=
      if ty =? T_ONESUM then check_onesum P links Cs
      else if (ty =? T_TWOSUM) || (ty =? T_DELTASUM) || (ty =? T_YSUM) || (ty =? T_THREESUM) then
        match links, Cs with
        | [L0; L1], [C0; C1] =>
          check_sum P (if ty =? T_TWOSUM then 2 else if ty =? T_DELTASUM then 3 else if ty =? T_YSUM then 4 else 5) L0 L1 C0 C1
        | _, _ => 263
        end
      else if ty =? T_PIVOTS then
        match links, Cs with
        | [L], [C] =>
          let r := check_pivots P L C in
          (* the type of the child is not restricted: neither the documentation nor the property does so, and re-completing
             or refining a subtree legitimately produces e.g. a pivot node below a pivot node *)
          r
        | _, _ => 263
        end
      else if ty =? T_SP then check_sp_node P links Cs
      else (* leaves: unknown, irregular, graph, cograph, planar, R10 *)
        code_if (Nat.eqb (length links) 0) 265 in
    if negb (structural =? 0) then structural else check_flags P.

Fixpoint check_tree (t : tree) : Z :=
  match t with
  | TNode P ch =>
    let r := check_node P (map info ch) in
    if negb (r =? 0) then r
    else fold_left (fun acc c => if negb (acc =? 0) then acc else check_tree c) ch 0
  end.

(* ---------- consistency of the flags of a node with those of its children ----------
   series-parallel extension, pivots, 1- and 2-sums preserve regularity, graphicness and cographicness in both
   directions; Delta-, Y- and 3-sums preserve regularity.  If every flag tells the truth, then a positive flag of such a
   node is never accompanied by a negative flag of a child, and a negative one never by positive flags of all
   children (undetermined flags, value 0, constrain nothing). *)
Definition sum_flag_ok (p : Z) (cs : list Z) : bool :=
  if 0 <? p then forallb (fun c => 0 <=? c) cs
  else if p <? 0 then negb (forallb (fun c => 0 <? c) cs)
  else true.

Definition check_prop (P : ninfo) (Cs : list ninfo) : Z :=
  let ty := t_type P in
  let ok := fun (g : ninfo -> Z) => sum_flag_ok (g P) (map g Cs) in
  match Cs with
  | [] => 0
  | _ =>
    if (ty =? T_SP) || (ty =? T_PIVOTS) || (ty =? T_ONESUM) || (ty =? T_TWOSUM) then
      (if ok t_reg && ok t_gra && ok t_cog then 0 else 254)
    else if (ty =? T_DELTASUM) || (ty =? T_YSUM) || (ty =? T_THREESUM) then
      (if ok t_reg then 0 else 254)
    else 0
  end.

Fixpoint check_prop_tree (t : tree) : Z :=
  match t with
  | TNode P ch =>
    let r := check_prop P (map info ch) in
    if negb (r =? 0) then r
    else fold_left (fun acc c => if negb (acc =? 0) then acc else check_prop_tree c) ch 0
  end.

(* bottom-up flag propagation (seymour.c CMRseymourSetAttributes): regularity of an inner node is the minimum of
   its children's (all sum types, pivots and series-parallel nodes preserve regularity both ways) *)
Fixpoint expected_reg (t : tree) : Z :=
  match t with
  | TNode P ch =>
    let ty := t_type P in
    if ty =? T_UNKNOWN then 0
    else if ty =? T_IRREGULAR then -1
    else if (ty =? T_GRAPH) || (ty =? T_COGRAPH) || (ty =? T_PLANAR) || (ty =? T_R10) then 1
    else match ch with
         | [] => 1
         | _ => fold_left (fun acc c => Z.min acc (expected_reg c)) ch 1
         end
  end.

(* record: cfgs.. | root matrix M (as given to the library) | rc | tree (pre-order) ; the root's matrix must be M
   (for a binary tree built by CMRtuTest: its support) *)
Definition judge_tree (rec : list Z) : Z :=
  match (cfg <- dlist dZ ;; binaryOfTernary <- dbool ;; x <- dmat ;; rc <- dZ ;; h <- dbool ;;
         t <- (if h then (t <- dtree 60 ;; dret (Some t)) else dret None) ;; dend (cfg, binaryOfTernary, x, rc, t)) rec with
  | Some ((cfg, bot, (m, n, M), rc, t), _) =>
    if negb (rc =? 0) then 0      (* errors are the business of C01/C02/C11 *)
    else match t with
         | None => 0
         | Some tr =>
           let P := info tr in
           if negb (Nat.eqb (t_m P) m && Nat.eqb (t_n P) n &&
                    mat_eqb (t_M P) (if bot then support M else M)) then 270
           else
             let r := check_tree tr in
             if negb (r =? 0) then r else check_prop_tree tr
         end
  | None => 1
  end.
