(* GraphicOracle.v -- the brute-force oracle GraphModel.graphic_bf decides graphicness (GraphicClosure.GraphicP) for
   every size:
       graphic_bf_sound    : graphic_bf m n M = true -> GraphicP m n M
       graphic_bf_complete : GraphicP m n M -> graphic_bf m n M = true
       graphic_bf_iff
   Soundness: the forest is mk_edges asg (ids 0..m-1), acyclic gives is_forest, GraphProofs.column_path turns every
   successful path_of into the simple path of the column.
   Completeness: any representation (T, paths) is normalised in three steps, each of which preserves the column-wise
   representation forest_rep (lemma rep_transport):
     (1) forest_relabel: by induction on the leaf-stripping derivation there is a node map f into {0..m} with
         map (ren f) T still a forest -- the leaf stripped first gets the largest number, everything else (in
         particular isolated pieces) is mapped by the induction hypothesis; components are merged on the way.  No
         injectivity is needed: the image of a simple path is a walk with distinct edge ids in a forest, hence simple
         (GraphicClosure.forest_trail_simple);
     (2) every edge is oriented from its smaller to its larger end (forests do not see orientations:
         NetworkClosure.is_forest_sim, paths: NetworkClosure.fstep_walk);
     (3) the edge ids are replaced by the row indices.
   The result is mk_edges of an assignment in (assignments m (S m)); it passes acyclic by
   GraphComplete.acyclic_complete, and every column support is a path set by GraphComplete.path_of_complete_eq. *)
From Coq Require Import List ZArith Bool Lia Permutation Arith PeanoNat.
From Cmr Require Import Base Det BaseProofs GraphModel GraphProofs NetworkSpec SpModel RelModel.
From Cmr Require BalancedProofs SpProofs SpProofs2 RelProofs GraphComplete.
From Cmr Require Import GraphicClosure NetworkClosure.
Import ListNotations.

(* ------------------------------------------------------------------------------------------ *)
(* 1. assignments, mk_edges                                                                     *)
(* ------------------------------------------------------------------------------------------ *)

Definition mk_edge (ip : nat * (nat * nat)) : edge :=
  {| e_id := fst ip; e_u := fst (snd ip); e_v := snd (snd ip) |}.
Definition ends (e : edge) : nat * nat := (e_u e, e_v e).

Lemma mk_edges_eq : forall l, mk_edges l = map mk_edge (combine (iota 0 (length l)) l).
Proof. reflexivity. Qed.

Lemma assignments_length : forall m k asg, In asg (assignments m k) -> length asg = m.
Proof.
  induction m as [|m IH]; intros k asg H; simpl in H.
  - destruct H as [<-|[]]. reflexivity.
  - apply in_flat_map in H. destruct H as [p [_ H]]. apply in_map_iff in H. destruct H as [a [<- Ha]].
    simpl. f_equal. eapply IH; eauto.
Qed.

Lemma combine_ids : forall (l : list (nat * nat)) s,
  map e_id (map mk_edge (combine (iota s (length l)) l)) = iota s (length l).
Proof.
  induction l as [|a l IH]; intros s; [reflexivity|]. simpl. f_equal. apply IH.
Qed.

Lemma mk_edges_ids : forall l, map e_id (mk_edges l) = iota 0 (length l).
Proof. intros l. rewrite mk_edges_eq. apply combine_ids. Qed.

Lemma mk_edges_length : forall l, length (mk_edges l) = length l.
Proof.
  intros l. rewrite mk_edges_eq, map_length, combine_length, length_iota. apply Nat.min_id.
Qed.

Lemma in_pairs_below : forall k a b, a < b -> b < k -> In (a, b) (pairs_below k).
Proof.
  intros k a b Hab Hb. unfold pairs_below. apply in_flat_map. exists a. split.
  - apply in_iota. lia.
  - apply in_map. apply in_iota. lia.
Qed.

Lemma in_assignments : forall k (l : list (nat * nat)),
  (forall ab, In ab l -> fst ab < snd ab /\ snd ab < k) -> In l (assignments (length l) k).
Proof.
  intros k; induction l as [|[a b] l IH]; intros H; simpl.
  - left; reflexivity.
  - apply in_flat_map. exists (a, b). split.
    + destruct (H (a, b) (or_introl eq_refl)) as [A B]. apply in_pairs_below; assumption.
    + apply in_map. apply IH. intros ab Hab. apply H. right; exact Hab.
Qed.

Lemma mk_edges_ends_gen : forall L s, map e_id L = iota s (length L) ->
  map mk_edge (combine (iota s (length L)) (map ends L)) = L.
Proof.
  induction L as [|a L IH]; intros s H; [reflexivity|].
  simpl in H. inversion H as [[Ha Hr]]. simpl. f_equal.
  - destruct a as [i u v]. simpl in *. unfold mk_edge; simpl. rewrite Ha. reflexivity.
  - rewrite Ha. apply IH. rewrite Ha in Hr. exact Hr.
Qed.

Lemma mk_edges_ends : forall L, map e_id L = iota 0 (length L) -> mk_edges (map ends L) = L.
Proof.
  intros L H. rewrite mk_edges_eq, map_length. apply mk_edges_ends_gen. exact H.
Qed.

(* ------------------------------------------------------------------------------------------ *)
(* 2. Soundness                                                                                 *)
(* ------------------------------------------------------------------------------------------ *)

Lemma is_path_set_path : forall k S, is_path_set k S = true -> exists u v p, path_of S u v = Some p.
Proof.
  intros k S H. destruct S as [|a S]; [exists 0, 0, []; reflexivity|].
  unfold is_path_set in H. apply existsb_exists in H. destruct H as [u [_ H]].
  apply existsb_exists in H. destruct H as [v [_ H]]. apply andb_true_iff in H. destruct H as [_ H].
  destruct (path_of (a :: S) u v) as [p|] eqn:E; [|discriminate]. exists u, v, p. exact E.
Qed.

Theorem graphic_bf_sound : forall m n M, graphic_bf m n M = true -> GraphicP m n M.
Proof.
  intros m n M H. unfold graphic_bf in H. apply andb_true_iff in H. destruct H as [Hb H].
  apply existsb_exists in H. destruct H as [asg [Hin H]]. cbv zeta in H.
  apply andb_true_iff in H. destruct H as [Hac Hcols].
  pose proof (assignments_length _ _ _ Hin) as Hlen.
  set (T := mk_edges asg) in *.
  assert (HlenT : length T = m) by (unfold T; rewrite mk_edges_length; exact Hlen).
  assert (HN : NoDup (map e_id T)) by (unfold T; rewrite mk_edges_ids; apply NoDup_iota).
  apply GraphicP_iff. split; auto. exists T. split; [|split; [|split]]; auto.
  - apply acyclic_forest. exact Hac.
  - intros j Hj. rewrite forallb_forall in Hcols.
    assert (Hj' : In j (iota 0 n)) by (apply in_iota; lia).
    specialize (Hcols j Hj').
    destruct (is_path_set_path _ _ Hcols) as [u [v [p Hp]]].
    destruct (column_path m M T j u v p HN HlenT Hp) as [Hsp [_ Hiff]].
    exists u, v, p. split; auto. intros i Hi. rewrite (Hiff i Hi). split.
    + intros E. rewrite E. discriminate.
    + intros Hnz. destruct (get_binary M i j Hb); [contradiction | assumption].
Qed.
Print Assumptions graphic_bf_sound.

(* ------------------------------------------------------------------------------------------ *)
(* 3. Relabelling the nodes of a forest into {0..number of edges}                                *)
(* ------------------------------------------------------------------------------------------ *)

Lemma forest_relabel : forall L, is_forest L ->
  exists f : nat -> nat, (forall x, f x <= length L) /\ is_forest (map (ren f) L).
Proof.
  intros L HF; induction HF as [|l1 e l2 Hloop Hdeg HF IH].
  - exists (fun _ => 0). split; [intros; simpl; lia | constructor].
  - destruct IH as [f0 [Hb HF0]].
    destruct (leaf_cases _ _ Hdeg) as [z [Hz Hd]].
    set (k := length (l1 ++ l2)) in *.
    assert (Hlen : length (l1 ++ e :: l2) = S k).
    { unfold k. rewrite !app_length. simpl. lia. }
    set (f := fun x => if Nat.eqb x z then S k else f0 x).
    assert (Hfz : f z = S k) by (unfold f; rewrite Nat.eqb_refl; reflexivity).
    assert (Hfo : forall x, x <> z -> f x = f0 x).
    { intros x Hx. unfold f. apply Nat.eqb_neq in Hx. rewrite Hx. reflexivity. }
    assert (Hd0 : degree (l1 ++ l2) z = 0).
    { rewrite degree_app, degree_cons in Hd. rewrite degree_app.
      pose proof (contrib_incident _ _ Hz). lia. }
    assert (Hmap : map (ren f) (l1 ++ l2) = map (ren f0) (l1 ++ l2)).
    { apply map_ext_in. intros a Ha. destruct (degree0_not_incident _ _ _ Hd0 Ha) as [A B].
      unfold ren. rewrite !Hfo by assumption. reflexivity. }
    exists f. split.
    + intros x. rewrite Hlen. unfold f. destruct (Nat.eqb x z); [lia|]. specialize (Hb x). fold k in Hb. lia.
    + apply (is_forest_perm (map (ren f) (e :: l1 ++ l2))); [|apply Permutation_map, Permutation_middle].
      simpl map. rewrite Hmap.
      unfold is_loop in Hloop. apply Nat.eqb_neq in Hloop.
      assert (Hends : (f (e_u e) = S k /\ f (e_v e) <= k) \/ (f (e_v e) = S k /\ f (e_u e) <= k)).
      { apply incident_iff in Hz. destruct Hz as [E|E].
        - left. rewrite E. split; [exact Hfz|]. rewrite Hfo by congruence. apply Hb.
        - right. rewrite E. split; [exact Hfz|]. rewrite Hfo by congruence. apply Hb. }
      apply (is_forest_cons_z _ _ (S k)).
      * unfold is_loop, ren; simpl. apply Nat.eqb_neq. lia.
      * apply incident_iff. simpl. destruct Hends as [[A _]|[A _]]; auto.
      * rewrite degree_cons. rewrite (degree_fresh _ (S k)).
        -- unfold contrib, ren; simpl.
           destruct Hends as [[A B]|[A B]]; rewrite A, Nat.eqb_refl;
             [destruct (Nat.eqb_spec (f (e_v e)) (S k)) | destruct (Nat.eqb_spec (f (e_u e)) (S k))]; lia.
        -- intros a Ha. apply in_map_iff in Ha. destruct Ha as [a0 [<- _]]. simpl.
           pose proof (Hb (e_u a0)). pose proof (Hb (e_v a0)). fold k in H, H0. lia.
      * exact HF0.
Qed.

(* ------------------------------------------------------------------------------------------ *)
(* 4. Transporting a representation along a relabelling of the forest                            *)
(* ------------------------------------------------------------------------------------------ *)

Lemma rep_transport : forall m n M T T' (phi : edge -> edge)
    (P : list (edge * bool) -> list (edge * bool)) (f : nat -> nat),
  forest_rep m n M T -> length T' = m -> NoDup (map e_id T') -> is_forest T' ->
  (forall i, i < m -> nth i T' dflt = phi (nth i T dflt)) ->
  (forall x y p, is_walk T x y p -> is_walk T' (f x) (f y) (P p)) ->
  (forall x y p, is_walk T x y p -> NoDup (step_ids p) -> NoDup (step_ids (P p))) ->
  (forall x y p e, is_walk T x y p -> In e T -> (In (phi e) (map fst (P p)) <-> In e (map fst p))) ->
  forest_rep m n M T'.
Proof.
  intros m n M T T' phi P f [H1 [H3 [H4 H5]]] Hl HN HF Hnth Hwalk Hids Hin.
  split; [|split; [|split]]; auto.
  intros j Hj. destruct (H5 j Hj) as [x [y [p [Hsp He]]]].
  pose proof (simple_path_NoDup_ids _ _ _ _ H3 Hsp) as Hndp. destruct Hsp as [Hw _].
  apply (col_ok_intro m M T' j (f x) (f y) (P p)); auto.
  - eapply Hids; eauto.
  - intros i Hi. rewrite Hnth by exact Hi. rewrite (He i Hi). symmetry. apply (Hin x y); auto.
    apply nth_In. lia.
Qed.

Lemma in_map_inj_on : forall (phi : edge -> edge) (X : list edge) e,
  (forall a, In a X -> phi a = phi e -> a = e) -> (In (phi e) (map phi X) <-> In e X).
Proof.
  intros phi X e Hinj. split; [|apply in_map].
  intros H. apply in_map_iff in H. destruct H as [a [E Ha]]. rewrite <- (Hinj a Ha E). exact Ha.
Qed.

Lemma nth_map_dflt : forall (phi : edge -> edge) T i, i < length T ->
  nth i (map phi T) dflt = phi (nth i T dflt).
Proof.
  intros phi T i Hi. rewrite (nth_indep _ dflt (phi dflt)) by (rewrite map_length; exact Hi). apply map_nth.
Qed.

(* (1) renaming the nodes *)
Lemma rep_ren : forall m n M T (f : nat -> nat),
  forest_rep m n M T -> is_forest (map (ren f) T) -> forest_rep m n M (map (ren f) T).
Proof.
  intros m n M T f HR HF'. pose proof HR as [H1 [H3 [H4 H5]]].
  assert (Hnd : forall e, In e T -> e <> dflt).
  { intros e He E. pose proof (is_forest_noloop T H4 e He) as Hl. rewrite E in Hl. discriminate. }
  apply (rep_transport m n M T (map (ren f) T) (ren f) (con_path dflt f) f HR).
  - rewrite map_length. exact H1.
  - rewrite map_map. rewrite (map_ext _ e_id); [exact H3 | reflexivity].
  - exact HF'.
  - intros i Hi. apply nth_map_dflt. lia.
  - intros x y p Hw. apply (con_path_walk dflt f eq_refl T); auto. intros a Ha _. apply in_map. exact Ha.
  - intros x y p _ Hnd'. apply con_path_ids. exact Hnd'.
  - intros x y p e Hw He. split.
    + intros Hin. destruct (con_path_edges_inv dflt f p _ Hin) as [a [_ [Ha E]]].
      assert (e = a); [|subst a; exact Ha].
      apply (NoDup_map_inj _ _ e_id T); auto; [eapply path_edges_in_T; eauto|].
      apply (f_equal e_id) in E. exact E.
    + intros Hin. apply con_path_edges; auto.
Qed.

(* (2) reversing some edges *)
Lemma rep_flip : forall m n M T (fl : edge -> bool),
  forest_rep m n M T -> forest_rep m n M (map (fg fl) T).
Proof.
  intros m n M T fl HR. pose proof HR as [H1 [H3 [H4 H5]]].
  apply (rep_transport m n M T (map (fg fl) T) (fg fl) (map (fstep fl)) (fun x => x) HR).
  - rewrite map_length. exact H1.
  - rewrite map_map. rewrite (map_ext _ e_id); [exact H3 | intros; apply fg_id].
  - apply (is_forest_sim T H4). apply Forall2_map_sim. apply fg_sim.
  - intros i Hi. apply nth_map_dflt. lia.
  - intros x y p Hw. apply fstep_walk. exact Hw.
  - intros x y p _ Hnd. unfold step_ids. rewrite map_map.
    rewrite (map_ext _ (fun q => e_id (fst q))); [exact Hnd|]. intros q. simpl. apply fg_id.
  - intros x y p e Hw He.
    replace (map fst (map (fstep fl) p)) with (map (fg fl) (map fst p))
      by (rewrite !map_map; reflexivity).
    apply in_map_inj_on. intros a Ha E.
    apply (NoDup_map_inj _ _ e_id T); auto; [eapply path_edges_in_T; eauto|].
    rewrite <- (fg_id fl a), <- (fg_id fl e), E. reflexivity.
Qed.

(* (3) changing the edge identifiers by a map that is injective on the identifiers in use *)
Definition reid (h : nat -> nat) (e : edge) : edge := {| e_id := h (e_id e); e_u := e_u e; e_v := e_v e |}.
Definition reid_path (h : nat -> nat) (p : list (edge * bool)) : list (edge * bool) :=
  map (fun q => (reid h (fst q), snd q)) p.

Lemma reid_walk : forall h T x y p, is_walk T x y p -> is_walk (map (reid h) T) x y (reid_path h p).
Proof.
  intros h T x y p H; induction H as [x|x y e fwd p Hin Hs Hw IH]; [constructor|].
  unfold reid_path. simpl map. apply walk_cons.
  - apply in_map. exact Hin.
  - destruct fwd; exact Hs.
  - replace (if fwd then e_v (reid h e) else e_u (reid h e)) with (if fwd then e_v e else e_u e)
      by (destruct fwd; reflexivity).
    exact IH.
Qed.

Lemma reid_sim : forall h e, sim e (reid h e).
Proof. intros h e. split; [reflexivity | intros z; reflexivity]. Qed.

Lemma rep_reid : forall m n M T (h : nat -> nat),
  forest_rep m n M T ->
  (forall a b, In a (map e_id T) -> In b (map e_id T) -> h a = h b -> a = b) ->
  forest_rep m n M (map (reid h) T).
Proof.
  intros m n M T h HR Hinj. pose proof HR as [H1 [H3 [H4 H5]]].
  assert (Hinje : forall a e, In a T -> In e T -> reid h a = reid h e -> a = e).
  { intros a e Ha He E. apply (NoDup_map_inj _ _ e_id T); auto.
    apply Hinj; try (apply in_map; assumption). apply (f_equal e_id) in E. exact E. }
  apply (rep_transport m n M T (map (reid h) T) (reid h) (reid_path h) (fun x => x) HR).
  - rewrite map_length. exact H1.
  - rewrite map_map. change (map (fun x => e_id (reid h x)) T) with (map (fun x => h (e_id x)) T).
    rewrite <- (map_map e_id h). apply NoDup_map_inj_in; auto.
  - apply (is_forest_sim T H4). apply Forall2_map_sim. apply reid_sim.
  - intros i Hi. apply nth_map_dflt. lia.
  - intros x y p Hw. apply reid_walk. exact Hw.
  - intros x y p Hw Hnd. unfold step_ids, reid_path. rewrite map_map. simpl.
    rewrite <- (map_map (fun q : edge * bool => e_id (fst q)) h). apply NoDup_map_inj_in; auto.
    intros a b Ha Hb. apply Hinj; eapply step_ids_in_T; eauto.
  - intros x y p e Hw He.
    replace (map fst (reid_path h p)) with (map (reid h) (map fst p))
      by (unfold reid_path; rewrite !map_map; reflexivity).
    apply in_map_inj_on. intros a Ha E. apply Hinje; auto. eapply path_edges_in_T; eauto.
Qed.

Lemma map_index_of_self : forall l, NoDup l -> map (fun x => RelProofs.index_of x l) l = iota 0 (length l).
Proof.
  induction l as [|a l IH]; intros H; [reflexivity|].
  inversion H as [|a' l' Hna Hnd]; subst. simpl. rewrite Nat.eqb_refl. f_equal.
  rewrite iota_S, <- (IH Hnd), map_map. apply map_ext_in. intros x Hx.
  destruct (Nat.eqb_spec x a); [subst; contradiction | reflexivity].
Qed.

(* ------------------------------------------------------------------------------------------ *)
(* 5. The normal form and completeness                                                          *)
(* ------------------------------------------------------------------------------------------ *)

Lemma normal_form : forall m n M T, forest_rep m n M T ->
  exists T', forest_rep m n M T' /\ map e_id T' = iota 0 m /\
             forall e, In e T' -> e_u e < e_v e /\ e_v e < S m.
Proof.
  intros m n M T HR. pose proof HR as [H1 [H3 [H4 H5]]].
  destruct (forest_relabel T H4) as [f [Hb HF2]]. rewrite H1 in Hb.
  set (T2 := map (ren f) T) in *.
  pose proof (rep_ren m n M T f HR HF2) as HR2. fold T2 in HR2.
  set (fl := fun e => negb (Nat.ltb (e_u e) (e_v e))).
  set (T3 := map (fg fl) T2).
  pose proof (rep_flip m n M T2 fl HR2) as HR3. fold T3 in HR3.
  set (h := fun i => RelProofs.index_of i (map e_id T3)).
  set (T4 := map (reid h) T3).
  assert (HR4 : forest_rep m n M T4).
  { apply rep_reid; auto. intros a b Ha Hb' E. eapply RelProofs.index_of_inj; eauto. }
  exists T4. split; [exact HR4|]. split.
  - unfold T4. rewrite map_map. change (map (fun x => e_id (reid h x)) T3) with (map (fun x => h (e_id x)) T3).
    rewrite <- (map_map e_id h). unfold h. rewrite map_index_of_self by apply HR3.
    rewrite map_length. destruct HR3 as [E _]. rewrite E. reflexivity.
  - intros e He. unfold T4 in He. apply in_map_iff in He. destruct He as [e3 [<- He3]]. simpl.
    unfold T3 in He3. apply in_map_iff in He3. destruct He3 as [e2 [<- He2]].
    assert (Hl2 : e_u e2 <> e_v e2).
    { pose proof (is_forest_noloop T2 HF2 e2 He2) as Hl. unfold is_loop in Hl. apply Nat.eqb_neq in Hl. exact Hl. }
    assert (Hn2 : e_u e2 <= m /\ e_v e2 <= m).
    { unfold T2 in He2. apply in_map_iff in He2. destruct He2 as [e1 [<- _]]. simpl. split; apply Hb. }
    unfold fg, fl. destruct (Nat.ltb_spec (e_u e2) (e_v e2)); simpl; lia.
Qed.

Theorem graphic_bf_complete : forall m n M, GraphicP m n M -> graphic_bf m n M = true.
Proof.
  intros m n M HG. apply GraphicP_iff in HG. destruct HG as [Hb [T0 HR0]].
  destruct (normal_form m n M T0 HR0) as [T [HR [Hids Hnodes]]].
  destruct HR as [H1 [H3 [H4 H5]]].
  set (asg := map ends T).
  assert (Hlasg : length asg = m) by (unfold asg; rewrite map_length; exact H1).
  assert (Hmk : mk_edges asg = T).
  { unfold asg. apply mk_edges_ends. rewrite H1. exact Hids. }
  assert (HndT : NoDup T) by (eapply NoDup_map_NoDup; eauto).
  unfold graphic_bf. apply andb_true_intro. split; [exact Hb|].
  apply existsb_exists. exists asg. split.
  - rewrite <- Hlasg. apply in_assignments. intros ab Hab. unfold asg in Hab.
    apply in_map_iff in Hab. destruct Hab as [e [<- He]]. simpl. rewrite Hlasg. apply Hnodes. exact He.
  - cbv zeta. rewrite Hmk. apply andb_true_intro. split.
    + apply GraphComplete.acyclic_complete; auto. apply is_forest_no_cycle. exact H4.
    + apply forallb_forall. intros j Hj. apply in_iota in Hj.
      destruct (H5 j) as [x [y [p [Hsp He]]]]; [lia|].
      set (S := map (fun i => nth i T {| e_id := 0; e_u := 0; e_v := 0 |}) (col_support m M j)).
      destruct Hsp as [Hw Hndn].
      pose proof (simple_path_NoDup_edges _ _ _ _ Hw Hndn) as Hnde.
      (* the edges of p are exactly the edges selected by the support of column j *)
      assert (HinS : forall e, In e (map fst p) <-> In e S).
      { intros e. unfold S. split.
        - intros Hin. pose proof (path_edges_in_T _ _ _ _ Hw e Hin) as HeT.
          destruct (In_nth T e dflt HeT) as [i [Hi Ei]]. apply in_map_iff. exists i. split; [exact Ei|].
          apply col_support_In. split; [lia|]. rewrite <- Ei in Hin.
          assert (E1 : get M i j = 1%Z) by (apply He; [lia | exact Hin]). rewrite E1. discriminate.
        - intros Hin. apply in_map_iff in Hin. destruct Hin as [i [Ei Hi]]. apply col_support_In in Hi. destruct Hi as [Hi Hnz].
          rewrite <- Ei. apply (He i Hi). destruct (get_binary M i j Hb); [contradiction | assumption]. }
      assert (HndS : NoDup S).
      { unfold S. apply NoDup_map_inj_in; [|apply NoDup_col_support].
        intros a b Ha Hb' E. apply col_support_In in Ha. apply col_support_In in Hb'.
        apply (proj1 (NoDup_nth T dflt) HndT); try lia. exact E. }
      assert (HPS : Permutation (map fst p) S) by (apply NoDup_Permutation; auto).
      assert (HwS : is_walk S x y p).
      { eapply is_walk_incl; [|exact Hw]. intros q Hq. apply HinS. apply in_map. exact Hq. }
      pose proof (GraphComplete.path_of_complete_eq S x y p (conj HwS Hndn) HPS) as Hpath.
      fold S. destruct S as [|s0 S'] eqn:ES; [reflexivity|]. rewrite <- ES in *.
      (* nonempty support: the path is nonempty, so its ends are distinct nodes of T *)
      assert (Hpne : p <> []).
      { intros Ep. subst p. simpl in HPS. apply Permutation_nil in HPS. rewrite ES in HPS. discriminate. }
      assert (Hxy : x <> y).
      { intros E. apply Hpne. subst y. apply (simple_path_closed_nil T x p). split; assumption. }
      assert (Hnode : forall z q, In q p -> incident (fst q) z = true -> z < Datatypes.S m).
      { intros z q Hq Hi. pose proof (is_walk_edges _ _ _ _ Hw q Hq) as HqT.
        destruct (Hnodes _ HqT). apply incident_iff in Hi. destruct Hi; lia. }
      destruct (walk_touch_start _ _ _ _ Hw Hxy) as [q1 [Hq1 Hi1]].
      destruct (walk_touch_end _ _ _ _ Hw Hxy) as [q2 [Hq2 Hi2]].
      unfold is_path_set. rewrite ES at 1.
      apply existsb_exists. exists x. split; [apply in_iota; pose proof (Hnode x q1 Hq1 Hi1); lia|].
      apply existsb_exists. exists y. split; [apply in_iota; pose proof (Hnode y q2 Hq2 Hi2); lia|].
      apply andb_true_intro. split.
      * apply negb_true_iff. apply Nat.eqb_neq. exact Hxy.
      * rewrite Hpath. reflexivity.
Qed.
Print Assumptions graphic_bf_complete.

Corollary graphic_bf_iff : forall m n M, graphic_bf m n M = true <-> GraphicP m n M.
Proof. intros m n M. split; [apply graphic_bf_sound | apply graphic_bf_complete]. Qed.
Print Assumptions graphic_bf_iff.

(* consequences: the oracle inherits the closure properties, e.g. heredity (kind 5 of judge_rel) *)
Corollary graphic_bf_submat : forall m n M rs cs, wf_mat m n M = true ->
  strictly_increasing rs = true -> strictly_increasing cs = true ->
  all_lt m rs = true -> all_lt n cs = true ->
  graphic_bf m n M = true -> graphic_bf (length rs) (length cs) (submat M rs cs) = true.
Proof.
  intros m n M rs cs Hwf Hr Hc Hlr Hlc H. apply graphic_bf_iff. apply (GraphicP_submat m n M rs cs); auto.
  apply graphic_bf_iff. exact H.
Qed.
Print Assumptions graphic_bf_submat.

Print Assumptions forest_relabel.
Print Assumptions normal_form.
