(* TuJudgeProofs.v — what acceptance by judge_tu / judge_regular means (stdlib style). *)
From Cmr Require Import Base Det TuModel BaseProofs.
Local Open Scope Z_scope.

Definition dsub : dec (option (list nat * list nat)) :=
  h <- dbool ;;
  (if h then (rs <- dlist dnat ;; cs <- dlist dnat ;; dret (Some (rs, cs))) else dret None).

Definition tu_input :=
  cfg <- dlist dZ ;; x <- dmat ;; rc <- dZ ;; v <- dZ ;; h <- dbool ;;
  sub <- (if h then (rs <- dlist dnat ;; cs <- dlist dnat ;; dret (Some (rs, cs))) else dret None) ;;
  dend (cfg, x, rc, v, sub).

Theorem judge_tu_sound : forall rec cfg m n M rc v sub rest,
  tu_input rec = Some ((cfg, (m, n, M), rc, v, sub), rest) ->
  judge_tu rec = 0 ->
  rc = 0 /\
  (v = 0 \/ v = 1 \/ (v = 2 /\ cfg_stopflags cfg = true)) /\
  (v = 1 -> tu_bf m n M = true /\ sub = None) /\
  (v = 0 -> tu_bf m n M = false /\
            (cfg_want_sub cfg = true ->
             exists rs cs, sub = Some (rs, cs) /\ check_violator m n M rs cs = true /\
               (is_ternary M = false -> length rs = 1%nat) /\
               (is_ternary M = true -> cfg_algorithm cfg = 0 -> check_min_violator m n M rs cs = true))).
Proof.
  intros rec cfg m n M rc v sub rest Hdec Hj.
  unfold judge_tu in Hj. unfold tu_input in Hdec. rewrite Hdec in Hj.
  destruct (rc =? 0) eqn:Hrc; cbn [negb] in Hj; [|discriminate].
  apply Z.eqb_eq in Hrc. split; [exact Hrc|].
  destruct (v =? 2) eqn:Hv2.
  { apply Z.eqb_eq in Hv2. destruct (cfg_stopflags cfg) eqn:Hs; [|discriminate].
    split; [right; right; auto|]. split; intros Hv; lia. }
  destruct ((v =? 0) || (v =? 1)) eqn:Hv01; cbn [negb] in Hj; [|discriminate].
  destruct (Bool.eqb (v =? 1) (tu_bf m n M)) eqn:Ht; cbn [negb] in Hj; [|discriminate].
  apply Bool.eqb_prop in Ht.
  apply orb_true_iff in Hv01.
  split. { destruct Hv01 as [H|H]; apply Z.eqb_eq in H; auto. }
  split.
  - intros Hv1. subst v. cbn in Ht. split; [auto|]. cbn in Hj. destruct sub; [discriminate|reflexivity].
  - intros Hv0. subst v. cbn in Ht. split; [auto|]. cbn in Hj.
    intros Hw. rewrite Hw in Hj. cbn [negb] in Hj.
    destruct sub as [[rs cs]|]; [|discriminate].
    exists rs, cs. split; [reflexivity|].
    destruct (check_violator m n M rs cs) eqn:Hc; cbn [negb] in Hj; [|discriminate].
    split; [reflexivity|].
    destruct (is_ternary M) eqn:Htern; cbn [negb] in Hj.
    + split; [discriminate|]. intros _ Ha. rewrite Ha in Hj. cbn in Hj.
      destruct (check_min_violator m n M rs cs); [reflexivity|discriminate].
    + split; [|discriminate]. intros _.
      destruct (Nat.eqb (length rs) 1) eqn:Hl; [|discriminate]. now apply Nat.eqb_eq in Hl.
Qed.

Theorem judge_tu_cert_sound : forall rec cfg m n M rc v sub rest,
  tu_input rec = Some ((cfg, (m, n, M), rc, v, sub), rest) ->
  judge_tu_cert rec = 0 ->
  rc = 0 /\
  (v = 0 \/ v = 1 \/ (v = 2 /\ cfg_stopflags cfg = true)) /\
  (v = 1 -> sub = None) /\
  (v = 0 -> cfg_want_sub cfg = true ->
     exists rs cs, sub = Some (rs, cs) /\ check_violator m n M rs cs = true).
Proof.
  intros rec cfg m n M rc v sub rest Hdec Hj.
  unfold judge_tu_cert in Hj. unfold tu_input in Hdec. rewrite Hdec in Hj.
  destruct (rc =? 0) eqn:Hrc; cbn [negb] in Hj; [|discriminate].
  apply Z.eqb_eq in Hrc. split; [exact Hrc|].
  destruct (v =? 2) eqn:Hv2.
  { apply Z.eqb_eq in Hv2. destruct (cfg_stopflags cfg) eqn:Hs; [|discriminate].
    split; [right; right; auto|]. split; [intros Hv; lia | intros Hv; lia]. }
  destruct ((v =? 0) || (v =? 1)) eqn:Hv01; cbn [negb] in Hj; [|discriminate].
  apply orb_true_iff in Hv01.
  split. { destruct Hv01 as [H|H]; apply Z.eqb_eq in H; auto. }
  split.
  - intros Hv1. subst v. cbn in Hj. destruct sub; [discriminate|reflexivity].
  - intros Hv0 Hw. subst v. cbn in Hj. rewrite Hw in Hj. cbn [negb] in Hj.
    destruct sub as [[rs cs]|]; [|discriminate].
    exists rs, cs. split; [reflexivity|].
    destruct (check_violator m n M rs cs); [reflexivity|discriminate].
Qed.

Definition regular_input := cfg <- dlist dZ ;; x <- dmat ;; rc <- dZ ;; v <- dZ ;; dend (cfg, x, rc, v).

Theorem judge_regular_sound : forall rec cfg m n M rc v rest,
  regular_input rec = Some ((cfg, (m, n, M), rc, v), rest) ->
  judge_regular rec = 0 ->
  rc = 0 /\ (v = 0 \/ v = 1 \/ (v = 2 /\ cfg_stopflags cfg = true)) /\
  (v = 1 -> regular_bf m n M = true) /\ (v = 0 -> regular_bf m n M = false).
Proof.
  intros rec cfg m n M rc v rest Hdec Hj.
  unfold judge_regular in Hj. unfold regular_input in Hdec. rewrite Hdec in Hj.
  destruct (rc =? 0) eqn:Hrc; cbn [negb] in Hj; [|discriminate].
  apply Z.eqb_eq in Hrc. split; [exact Hrc|].
  destruct (v =? 2) eqn:Hv2.
  { apply Z.eqb_eq in Hv2. destruct (cfg_stopflags cfg) eqn:Hs; [|discriminate].
    split; [right; right; auto|]. split; intros Hv; lia. }
  destruct ((v =? 0) || (v =? 1)) eqn:Hv01; cbn [negb] in Hj; [|discriminate].
  destruct (Bool.eqb (v =? 1) (regular_bf m n M)) eqn:Ht; [|discriminate].
  apply Bool.eqb_prop in Ht. apply orb_true_iff in Hv01.
  split. { destruct Hv01 as [H|H]; apply Z.eqb_eq in H; auto. }
  split; intros Hv; subst v; cbn in Ht; auto.
Qed.

(* what check_min_violator establishes, in terms of the oracle *)
Theorem check_min_violator_spec : forall m n M rs cs,
  check_min_violator m n M rs cs = true ->
  check_violator m n M rs cs = true /\
  (det (length rs) (submat M rs cs) = 2 \/ det (length rs) (submat M rs cs) = -2) /\
  (forall i, (i < length rs)%nat -> tu_bf (length rs - 1) (length rs) (del i (submat M rs cs)) = true) /\
  (forall j, (j < length rs)%nat -> tu_bf (length rs) (length rs - 1) (map (del j) (submat M rs cs)) = true).
Proof.
  intros m n M rs cs H. unfold check_min_violator in H.
  apply andb_true_iff in H. destruct H as [H H3].
  apply andb_true_iff in H. destruct H as [H1 H2].
  split; [exact H1|]. split.
  - apply orb_true_iff in H2. destruct H2 as [H2|H2]; apply Z.eqb_eq in H2; auto.
  - apply andb_true_iff in H3. destruct H3 as [Hr Hc].
    rewrite forallb_forall in Hr, Hc.
    split; intros i Hi; [apply Hr|apply Hc]; apply in_iota; lia.
Qed.
