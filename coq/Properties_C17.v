From Cmr Require Import Base Det SpModel.
Theorem placeholder_C17 : True. Proof. exact I. Qed.
