(* Properties_C17.v — C17: the balancedness verdict equals the definition, is always written; violator valid. *)
From Coq Require Import Permutation.
From Cmr Require Import Base Det BaseProofs SpModel BalancedProofs.
Local Open Scope Z_scope.

(* the brute-force oracle is the definition: no square submatrix (any duplicate-free in-range row and column index
   lists of equal length) with exactly two nonzeros in every row and column has entry sum = 2 mod 4 *)
Theorem C17_oracle_is_definition : forall m n M, balanced_bf m n M = true <-> Balanced m n M.
Proof. exact balanced_bf_spec. Qed.
Print Assumptions C17_oracle_is_definition.

(* being such a "bad cycle" does not depend on the order in which rows and columns are listed *)
Theorem C17_bad_cycle_perm : forall M rs rs' cs cs', length rs = length cs ->
  Permutation rs rs' -> Permutation cs cs' ->
  bad_cycle (length rs) (submat M rs cs) = bad_cycle (length rs') (submat M rs' cs').
Proof. exact bad_cycle_perm. Qed.
Print Assumptions C17_bad_cycle_perm.

(* the violator check is sound: an accepted submatrix refutes balancedness *)
Theorem C17_violator_sound : forall m n M rs cs, check_unbalanced m n M rs cs = true -> ~ Balanced m n M.
Proof. exact check_unbalanced_sound. Qed.
Print Assumptions C17_violator_sound.

(* whenever the judge accepts a record of CMRbalancedTest: either the graph algorithm returned an error status,
   or the call succeeded, the verdict WAS WRITTEN (0 or 1), for ternary input it equals the oracle, a "no" with a
   requested violator carries a valid one, and input with an entry outside {-1,0,1} is reported not balanced *)
Theorem C17_judge_sound : forall rec alg sp ws m n M rc v sub rest,
  balanced_input rec = Some ((alg, sp, ws, (m, n, M), rc, v, sub), rest) ->
  judge_balanced rec = 0 ->
  (alg = 2 /\ rc <> 0) \/
  (rc = 0 /\ (v = 0 \/ v = 1) /\
   (is_ternary M = true ->
      (v = 1 <-> balanced_bf m n M = true) /\
      (v = 1 -> sub = None) /\
      (v = 0 -> ws = true -> exists rs cs, sub = Some (rs, cs) /\ check_unbalanced m n M rs cs = true) /\
      (v = 0 -> forall rs cs, sub = Some (rs, cs) -> check_unbalanced m n M rs cs = true)) /\
   (is_ternary M = false -> v = 0)).
Proof. exact judge_balanced_sound. Qed.
Print Assumptions C17_judge_sound.

Example C17_nonvacuous :
  balanced_bf 3 3 [[1;1;0];[0;1;1];[1;0;1]] = false /\ balanced_bf 3 3 [[1;1;0];[0;1;1];[-1;0;1]] = true.
Proof. split; vm_compute; reflexivity. Qed.

(* ---------- every totally unimodular matrix is balanced (TuBalanced.v: Camion's parity lemma by induction over pivots), so
   matrices certified totally unimodular (network matrices by their digraph, series-parallel matrices by the reduction model)
   are balanced at every size and an accepted `balanced_cert` record says so ---------- *)
From Cmr Require TuModel GraphModel TuNetModel BalancedCertModel BalancedCertProofs TuBalanced.
Theorem C17_totally_unimodular_matrices_are_balanced : forall m n M,
  wf_mat m n M = true -> tu_bf m n M = true -> balanced_bf m n M = true.
Proof. exact TuBalanced.tu_balanced_wf. Qed.
Print Assumptions C17_totally_unimodular_matrices_are_balanced.

Theorem C17_no_violator_in_a_totally_unimodular_matrix : forall m n M rs cs,
  tu_bf m n M = true -> check_unbalanced m n M rs cs = false.
Proof. exact TuBalanced.tu_no_bad_cycle. Qed.
Print Assumptions C17_no_violator_in_a_totally_unimodular_matrix.

Theorem C17_certified_matrices_of_every_size : forall rec alg sp ws m n M rc v sub w rest,
  BalancedCertModel.balanced_cert_input rec = Some ((alg, sp, ws, (m, n, M), rc, v, sub, w), rest) ->
  TuNetModel.tu_certified m n M w = true ->
  BalancedCertModel.judge_balanced_cert rec = 0 ->
  (alg = 2 /\ rc <> 0) \/
  (rc = 0 /\ balanced_bf m n M = true /\ v = 1 /\ sub = None).
Proof. exact BalancedCertProofs.judge_balanced_cert_sound. Qed.
Print Assumptions C17_certified_matrices_of_every_size.

(* ---------- the judge accepts EXACTLY the records that satisfy its specification: besides soundness (above) also completeness,
   i.e. a record of a correct answer is never rejected (JudgeComplete1.v) ---------- *)
From Cmr Require JudgeComplete1.
Theorem C17_judge_balanced_accepts_exactly_the_specification :
    forall (rec : list Z) (alg : Z) (sp ws : bool) (m n : nat) (M : mat) (rc v : Z)
    (sub : option (list nat * list nat)) (rest : list Z),
    BalancedProofs.balanced_input rec = Some (alg, sp, ws, (m, n, M), rc, v, sub, rest) ->
    SpModel.judge_balanced rec = 0%Z <-> JudgeComplete1.balanced_spec alg ws m n M rc v sub.
Proof. exact JudgeComplete1.judge_balanced_iff. Qed.
Print Assumptions C17_judge_balanced_accepts_exactly_the_specification.
Theorem C17_judge_balanced_cert_accepts_exactly_the_specification :
    forall (rec : list Z) (alg : Z) (sp ws : bool) (m n : nat) (M : mat) (rc v : Z)
    (sub : option (list nat * list nat)) (w : GraphModel.witness) (rest : list Z),
    BalancedCertModel.balanced_cert_input rec = Some (alg, sp, ws, (m, n, M), rc, v, sub, w, rest) ->
    BalancedCertModel.judge_balanced_cert rec = 0%Z <->
    JudgeComplete1.balanced_cert_spec alg m n M rc v sub w.
Proof. exact JudgeComplete1.judge_balanced_cert_iff. Qed.
Print Assumptions C17_judge_balanced_cert_accepts_exactly_the_specification.
