(* Properties_C07.v — C07: every "not TU" answer carries a valid violating submatrix. *)
From Coq Require Import ZArith List.
From mathcomp Require Import all_ssreflect all_algebra.
From mathcomp Require Import ssrZ.
From Cmr Require Import Base Det TuModel TuProofs TuJudgeProofs TuSpec.
Import mathcomp.ssreflect.seq.
Local Open Scope ring_scope.

(* the certificate checker is sound for every matrix and every index lists: acceptance refutes TU *)
Theorem C07_certificate_sound : forall m n (M : mat) rs cs,
  check_violator m n M rs cs = true -> ~ TUmx (mx_of m n M).
Proof. exact check_violator_sound. Qed.
Print Assumptions C07_certificate_sound.

(* the Laplace determinant used by the checker is MathComp's determinant of the indexed submatrix *)
Theorem C07_det_is_det : forall k (M : mat) (rs cs : seq nat), size rs = k -> size cs = k ->
  det k (submat M rs cs) = \det (\matrix_(i < k, j < k) get M (nth 0%N rs i) (nth 0%N cs j)).
Proof. exact detE. Qed.
Print Assumptions C07_det_is_det.

(* Whenever the judge accepts a record with verdict "no" and a requested submatrix: it has equally many rows
   and columns, all in range and pairwise distinct, its determinant is outside {-1,0,1}; for input with an
   entry outside {-1,0,1} it is a single entry; for ternary input under the decomposition algorithm the
   determinant is -2 or +2 and deleting any one row or any one column leaves a totally unimodular matrix. *)
Theorem C07_accepted_violator_valid :
  forall rec cfg m n (M : mat) rc sub rest,
  tu_input rec = Some ((cfg, (m, n, M), rc, Z0, sub), rest) -> judge_tu rec = Z0 ->
  cfg_want_sub cfg = true ->
  exists rs cs, sub = Some (rs, cs) /\
    length rs = length cs /\ all_lt m rs = true /\ all_lt n cs = true /\ nodupn rs = true /\ nodupn cs = true /\
    small_det (det (length rs) (submat M rs cs)) = false /\
    ~ TUmx (mx_of m n M) /\
    (is_ternary M = false -> length rs = 1%nat) /\
    (is_ternary M = true -> cfg_algorithm cfg = Z0 ->
       (det (length rs) (submat M rs cs) = Zpos (xO xH) \/ det (length rs) (submat M rs cs) = Zneg (xO xH)) /\
       (forall i, (i < length rs)%coq_nat ->
          TUmx (mx_of (length rs - 1) (length rs) (del i (submat M rs cs)))) /\
       (forall j, (j < length rs)%coq_nat ->
          TUmx (mx_of (length rs) (length rs - 1) (List.map (del j) (submat M rs cs))))).
Proof. exact tu_violator_sound. Qed.
Print Assumptions C07_accepted_violator_valid.

(* for matrices of any size (no brute-force oracle involved): a "not TU" answer accepted together with its requested
   submatrix is certified by that submatrix *)
Theorem C07_certified_no_any_size :
  forall rec cfg m n (M : mat) rc sub rest,
  tu_input rec = Some ((cfg, (m, n, M), rc, Z0, sub), rest) -> judge_tu_cert rec = Z0 ->
  cfg_want_sub cfg = true -> ~ TUmx (mx_of m n M).
Proof. exact tu_cert_no_sound. Qed.
Print Assumptions C07_certified_no_any_size.

(* ---------- the judge accepts EXACTLY the records that satisfy its specification: besides soundness (above) also completeness,
   i.e. a record of a correct answer is never rejected (JudgeComplete1.v) ---------- *)
From Cmr Require JudgeComplete1.
Theorem C07_judge_tu_cert_accepts_exactly_the_specification :
    forall (rec cfg : list Z) (m n : nat) (M : mat) (rc v : Z) (sub : option (list nat * list nat))
    (rest : list Z),
    TuJudgeProofs.tu_input rec = Some (cfg, (m, n, M), rc, v, sub, rest) ->
    TuModel.judge_tu_cert rec = 0%Z <-> JudgeComplete1.tu_cert_spec cfg m n M rc v sub.
Proof. exact JudgeComplete1.judge_tu_cert_iff. Qed.
Print Assumptions C07_judge_tu_cert_accepts_exactly_the_specification.

(* ---------- the judge accepts EXACTLY the records that satisfy its specification (JudgeComplete3.v): completeness besides soundness,
   a record of a correct answer is never rejected ---------- *)
From Cmr Require JudgeComplete3.
Theorem C07_judge_clisub_accepts_exactly_the_specification :
    forall (rec : list Z) (tool variant infmt : Z) (inb : list Z) (rc : Z) (hasout : bool)
    (outb rest : list Z),
    CliProofs.clisub_input rec = Some (tool, variant, infmt, inb, rc, hasout, outb, rest) ->
    CliModel.judge_clisub rec = 0%Z <-> JudgeComplete3.clisub_spec tool variant infmt inb rc hasout outb.
Proof. exact JudgeComplete3.judge_clisub_iff. Qed.
Print Assumptions C07_judge_clisub_accepts_exactly_the_specification.
