(* RelClosureAll.v -- C10: for every kind K of judge_rel, everything the development proves about the two matrices of an
   accepted record, in one theorem judge_rel_kindK_closure.  The first conjuncts repeat what the judge verified (M' is
   the stated transform of M) and which verdict comparisons it made (same_at / imp_at); the remaining conjuncts are
   theorems about the DEFINITIONS (TuClosure, RegClosure, BalClosure, GraphicClosure, NetworkClosure, RelProofs,
   TuPivot, RegPivot): the properties whose verdicts are compared are equal (resp. inherited) for M and M'.
   Assumptions beyond the record: none for the boolean oracles; well-formedness of M and M' comes from the decoder
   (rel_input_wf, rel_input_wf'); `is_binary M` for the graphic statements of kinds 1 and 4 is stated as a premise of the
   corresponding conjunct (GraphicP is a notion about 0/1 matrices; the judge does not check it for kind 1). *)
From Coq Require Import List ZArith Bool Lia.
From Cmr Require Import Base Det BaseProofs PivotModel TuModel SpModel RelModel RelProofs RelPivot RelPivot7.
From Cmr Require TuClosure RegClosure BalClosure GraphicClosure NetworkClosure MatProofs BalancedProofs.
Import ListNotations.
Local Open Scope Z_scope.

Notation GraphicP := GraphicClosure.GraphicP.
Notation NetworkP := NetworkClosure.NetworkP.

(* ------------------------------------------------------------------------------------------ *)
(* 0. well-formedness of the second matrix; regularity under row / column permutations          *)
(* ------------------------------------------------------------------------------------------ *)

Lemma rel_input_wf' : forall rec kind p1 p2 m n M m' n' M' v v' rest,
  rel_input rec = Some ((kind, p1, p2, (m, n, M), (m', n', M'), v, v'), rest) -> wf_mat m' n' M' = true.
Proof.
  intros rec kind p1 p2 m n M m' n' M' v v' rest H. unfold rel_input, dbind in H.
  destruct (dZ rec) as [[a r1]|]; [|discriminate].
  destruct (dlist dZ r1) as [[b r2]|]; [|discriminate].
  destruct (dlist dZ r2) as [[c r3]|]; [|discriminate].
  destruct (dmat r3) as [[[[m0 n0] M0] r4]|]; [|discriminate].
  destruct (dmat r4) as [[[[m1 n1] M1] r5]|] eqn:E; [|discriminate].
  destruct (drep dZ 10 r5) as [[w r6]|]; [|discriminate].
  destruct (drep dZ 10 r6) as [[w' r7]|]; [|discriminate].
  unfold dend in H. destruct r7; [|discriminate]. inversion H; subst.
  eapply dmat_wf; eassumption.
Qed.

Lemma bool_eq_of_imps : forall a b : bool, (a = true -> b = true) -> (b = true -> a = true) -> a = b.
Proof. intros [|] [|] H1 H2; try reflexivity; [symmetry; apply H1 | apply H2]; reflexivity. Qed.

(* regularity (0/1 matrix with a totally unimodular signing) is invariant under row and column permutations:
   both directions are instances of heredity (RegClosure.regular_bf_submat), the converse with the inverse permutation *)
Theorem regular_bf_perm : forall m n M rp cp, wf_mat m n M = true ->
  is_perm_l m rp = true -> is_perm_l n cp = true ->
  regular_bf m n (submat M rp cp) = regular_bf m n M.
Proof.
  intros m n M rp cp HW Hr Hc.
  pose proof (is_perm_l_parts _ _ Hr) as (Lr & Rr & Nr).
  pose proof (is_perm_l_parts _ _ Hc) as (Lc & Rc & Nc).
  apply bool_eq_of_imps.
  - (* M' regular -> M regular: M is the submatrix of M' taken along the inverse permutations *)
    intros H.
    set (M' := submat M rp cp) in *.
    assert (HW' : wf_mat m n M' = true).
    { unfold M'. rewrite <- Lr at 1. rewrite <- Lc at 1. apply MatProofs.wf_submat. }
    set (rq := map (fun x => index_of x rp) (iota 0 m)).
    set (cq := map (fun x => index_of x cp) (iota 0 n)).
    assert (Ir : forall x, In x (iota 0 m) -> In x rp).
    { intros x Hx. apply in_iota in Hx. apply (perm_l_In m rp x Hr). lia. }
    assert (Ic : forall x, In x (iota 0 n) -> In x cp).
    { intros x Hx. apply in_iota in Hx. apply (perm_l_In n cp x Hc). lia. }
    assert (A1 : all_lt m rq = true).
    { apply BalancedProofs.all_lt_spec. intros y Hy. unfold rq in Hy. apply in_map_iff in Hy.
      destruct Hy as [x [<- Hx]]. rewrite <- Lr. apply index_of_lt. auto. }
    assert (A2 : all_lt n cq = true).
    { apply BalancedProofs.all_lt_spec. intros y Hy. unfold cq in Hy. apply in_map_iff in Hy.
      destruct Hy as [x [<- Hx]]. rewrite <- Lc. apply index_of_lt. auto. }
    pose proof (RegClosure.regular_bf_submat m n M' rq cq HW' A1 A2 H) as G.
    assert (Lrq : length rq = m) by (unfold rq; rewrite map_length; apply length_iota).
    assert (Lcq : length cq = n) by (unfold cq; rewrite map_length; apply length_iota).
    rewrite Lrq, Lcq in G.
    assert (E : submat M' rq cq = M).
    { unfold M'. rewrite MatProofs.submat_submat by (rewrite ?Lr, ?Lc; assumption).
      unfold rq, cq. rewrite (map_nth_index_of rp _ Ir), (map_nth_index_of cp _ Ic).
      apply MatProofs.submat_id. exact HW. }
    rewrite E in G. exact G.
  - intros H. pose proof (RegClosure.regular_bf_submat m n M rp cp HW Rr Rc H) as G.
    rewrite Lr, Lc in G. exact G.
Qed.

(* ------------------------------------------------------------------------------------------ *)
(* kind 1: permutation of rows and columns                                                      *)
(* ------------------------------------------------------------------------------------------ *)

Theorem judge_rel_kind1_closure : forall rec p1 p2 m n M m' n' M' v v' rest,
  rel_input rec = Some ((1, p1, p2, (m, n, M), (m', n', M'), v, v'), rest) ->
  judge_rel rec = 0 ->
  let rp := map Z.to_nat p1 in let cp := map Z.to_nat p2 in
  (* verified by the judge *)
  is_perm_l m rp = true /\ is_perm_l n cp = true /\ m' = m /\ n' = n /\ M' = submat M rp cp /\
  (forall i, (i < 10)%nat -> same_at v v' i i = true) /\
  (* theorems about the definitions *)
  tu_bf m' n' M' = tu_bf m n M /\
  regular_bf m' n' M' = regular_bf m n M /\
  (forall t, sp_greedy t m' n' M' = sp_greedy t m n M) /\
  balanced_bf m' n' M' = balanced_bf m n M /\
  (is_binary M = true -> (GraphicP m n M <-> GraphicP m' n' M')) /\
  (NetworkP m n M <-> NetworkP m' n' M').
Proof.
  intros rec p1 p2 m n M m' n' M' v v' rest Hdec HJ rp cp.
  pose proof (rel_input_wf _ _ _ _ _ _ _ _ _ _ _ _ _ Hdec) as HW.
  destruct (judge_rel_kind1 _ _ _ _ _ _ _ _ _ _ _ _ Hdec HJ) as (Hr & Hc & Em & En & EM & S & SP & B).
  fold rp cp in Hr, Hc, EM.
  split; [exact Hr|]. split; [exact Hc|]. split; [exact Em|]. split; [exact En|]. split; [exact EM|].
  split; [exact S|].
  subst m' n' M'.
  split; [exact (@TuClosure.tu_bf_perm m n M rp cp Hr Hc)|].
  split; [exact (regular_bf_perm m n M rp cp HW Hr Hc)|].
  split; [exact SP|]. split; [exact B|].
  split.
  - intros HB. exact (GraphicClosure.GraphicP_perm_iff m n M rp cp HW HB Hr Hc).
  - exact (NetworkClosure.NetworkP_perm_iff m n M rp cp HW Hr Hc).
Qed.

(* ------------------------------------------------------------------------------------------ *)
(* kind 2: scaling rows and columns by +-1                                                      *)
(* ------------------------------------------------------------------------------------------ *)

Theorem judge_rel_kind2_closure : forall rec p1 p2 m n M m' n' M' v v' rest,
  rel_input rec = Some ((2, p1, p2, (m, n, M), (m', n', M'), v, v'), rest) ->
  judge_rel rec = 0 ->
  (* verified by the judge *)
  length p1 = m /\ length p2 = n /\ forallb is_pm1' p1 = true /\ forallb is_pm1' p2 = true /\
  m' = m /\ n' = n /\ M' = mk_mat m n (fun i j => nthZ p1 i * nthZ p2 j * get M i j) /\
  (forall i, In i [V_TU; V_NET; V_CONET; V_SPT; V_BAL; V_CAM] -> same_at v v' i i = true) /\
  (* theorems about the definitions *)
  tu_bf m' n' M' = tu_bf m n M /\
  sp_greedy true m' n' M' = sp_greedy true m n M /\
  (is_ternary M = true -> balanced_bf m' n' M' = balanced_bf m n M) /\
  (NetworkP m n M <-> NetworkP m' n' M').
Proof.
  intros rec p1 p2 m n M m' n' M' v v' rest Hdec HJ.
  pose proof (rel_input_wf _ _ _ _ _ _ _ _ _ _ _ _ _ Hdec) as HW.
  destruct (judge_rel_kind2 _ _ _ _ _ _ _ _ _ _ _ _ Hdec HJ) as (L1 & L2 & P1 & P2 & Em & En & EM & S & SP & B).
  split; [exact L1|]. split; [exact L2|]. split; [exact P1|]. split; [exact P2|].
  split; [exact Em|]. split; [exact En|]. split; [exact EM|]. split; [exact S|].
  split.
  { subst m' n' M'. exact (@TuClosure.tu_bf_scale m n M p1 p2 L1 L2 P1 P2). }
  split; [exact SP|]. split; [exact B|].
  subst m' n' M'. exact (NetworkClosure.NetworkP_scale m n M p1 p2 HW L1 L2 P1 P2).
Qed.

(* ------------------------------------------------------------------------------------------ *)
(* kind 3: transposition                                                                        *)
(* ------------------------------------------------------------------------------------------ *)

Theorem judge_rel_kind3_closure : forall rec p1 p2 m n M m' n' M' v v' rest,
  rel_input rec = Some ((3, p1, p2, (m, n, M), (m', n', M'), v, v'), rest) ->
  judge_rel rec = 0 ->
  (* verified by the judge *)
  m' = n /\ n' = m /\ M' = transpose m n M /\
  (forall i, In i [V_TU; V_REG; V_SPT; V_SPB; V_BAL; V_CAM] -> same_at v v' i i = true) /\
  same_at v v' V_GRA V_COG = true /\ same_at v v' V_COG V_GRA = true /\
  same_at v v' V_NET V_CONET = true /\ same_at v v' V_CONET V_NET = true /\
  (* theorems about the definitions *)
  tu_bf m' n' M' = tu_bf m n M /\
  regular_bf m' n' M' = regular_bf m n M /\
  (forall t, sp_greedy t m' n' M' = sp_greedy t m n M) /\
  balanced_bf m' n' M' = balanced_bf m n M.
Proof.
  intros rec p1 p2 m n M m' n' M' v v' rest Hdec HJ.
  pose proof (rel_input_wf _ _ _ _ _ _ _ _ _ _ _ _ _ Hdec) as HW.
  destruct (judge_rel_kind3 _ _ _ _ _ _ _ _ _ _ _ _ Hdec HJ) as (Em & En & EM & S & S1 & S2 & S3 & S4 & SP & B).
  split; [exact Em|]. split; [exact En|]. split; [exact EM|]. split; [exact S|].
  split; [exact S1|]. split; [exact S2|]. split; [exact S3|]. split; [exact S4|].
  split.
  { subst m' n' M'. exact (@TuClosure.tu_bf_transpose m n M). }
  split.
  { subst m' n' M'. exact (RegClosure.regular_bf_transpose m n M HW). }
  split; [exact SP | exact B].
Qed.

(* ------------------------------------------------------------------------------------------ *)
(* kind 4: M' is M plus one line that is reducible (zero / +-unit / +-copy) in M'                *)
(* ------------------------------------------------------------------------------------------ *)

Theorem judge_rel_kind4_closure : forall rec p1 p2 m n M m' n' M' v v' rest,
  rel_input rec = Some ((4, p1, p2, (m, n, M), (m', n', M'), v, v'), rest) ->
  judge_rel rec = 0 ->
  exists isrow pos, p1 = [isrow; pos] /\
  let k := Z.to_nat pos in let isr := negb (isrow =? 0) in
  (* verified by the judge *)
  (if isr then m' = S m /\ n' = n /\ (k < m')%nat /\ submat M' (keep_line m' k) (iota 0 n') = M
   else m' = m /\ n' = S n /\ (k < n')%nat /\ submat M' (iota 0 m') (keep_line n' k) = M) /\
  line_reducible true m' n' M' isr k = true /\ is_ternary M' = true /\
  (forall i, In i [V_TU; V_REG; V_GRA; V_COG; V_NET; V_CONET; V_SPT; V_BAL] -> same_at v v' i i = true) /\
  (line_reducible false m' n' M' isr k = true -> same_at v v' V_SPB V_SPB = true) /\
  (* theorems about the definitions: ternary reducibility of the added line *)
  tu_bf m' n' M' = tu_bf m n M /\
  sp_greedy true m' n' M' = sp_greedy true m n M /\
  balanced_bf m' n' M' = balanced_bf m n M /\
  (NetworkP m' n' M' <-> NetworkP m n M) /\
  (* ... and when the line is also reducible in the binary sense (zero / unit / copy) *)
  (line_reducible false m' n' M' isr k = true -> sp_greedy false m' n' M' = sp_greedy false m n M) /\
  (line_reducible false m' n' M' isr k = true -> is_binary M' = true ->
     regular_bf m' n' M' = regular_bf m n M /\ (GraphicP m' n' M' <-> GraphicP m n M)).
Proof.
  intros rec p1 p2 m n M m' n' M' v v' rest Hdec HJ.
  pose proof (rel_input_wf' _ _ _ _ _ _ _ _ _ _ _ _ _ Hdec) as HW'.
  destruct (judge_rel_kind4 _ _ _ _ _ _ _ _ _ _ _ _ Hdec HJ) as (isrow & pos & Ep & H).
  exists isrow, pos. split; [exact Ep|]. cbv zeta in H |- *.
  set (k := Z.to_nat pos) in *. set (isr := negb (isrow =? 0)) in *.
  destruct H as (Hshape & Hlr & Ht & Hsame & SPB & SP & SPb).
  assert (Hk : (if isr then Nat.ltb k m' else Nat.ltb k n') = true).
  { destruct isr; destruct Hshape as (_ & _ & K & _); apply Nat.ltb_lt; exact K. }
  (* whatever is said about "M' without line k" is said about M *)
  assert (Hback : forall (A : Type) (X : nat -> nat -> mat -> A),
            (if isr then X (m' - 1)%nat n' (submat M' (keep_line m' k) (iota 0 n'))
             else X m' (n' - 1)%nat (submat M' (iota 0 m') (keep_line n' k))) = X m n M).
  { intros A X. destruct isr; destruct Hshape as (E1 & E2 & _ & EB); rewrite EB, E1, E2.
    - replace (S m - 1)%nat with m by lia. reflexivity.
    - replace (S n - 1)%nat with n by lia. reflexivity. }
  split; [exact Hshape|]. split; [exact Hlr|]. split; [exact Ht|]. split; [exact Hsame|]. split; [exact SPB|].
  split.
  { rewrite <- (Hback bool tu_bf). exact (@TuClosure.tu_bf_add_line m' n' M' isr k Ht Hk Hlr). }
  split; [exact SP|].
  split.
  { rewrite <- (Hback bool balanced_bf). exact (BalClosure.balanced_bf_add_line m' n' M' isr k Ht Hk Hlr). }
  split.
  { rewrite <- (Hback Prop NetworkP). exact (NetworkClosure.NetworkP_reducible_line m' n' M' isr k HW' Ht Hk Hlr). }
  split; [exact SPb|].
  intros Hlb Hb. split.
  - rewrite <- (Hback bool regular_bf). exact (RegClosure.regular_bf_add_line m' n' M' isr k HW' Hb Hk Hlb).
  - rewrite <- (Hback Prop GraphicP). exact (GraphicClosure.GraphicP_reducible_line m' n' M' isr k HW' Hb Hk Hlb).
Qed.

(* ------------------------------------------------------------------------------------------ *)
(* kind 5: M' is a submatrix of M                                                               *)
(* ------------------------------------------------------------------------------------------ *)

Theorem judge_rel_kind5_closure : forall rec p1 p2 m n M m' n' M' v v' rest,
  rel_input rec = Some ((5, p1, p2, (m, n, M), (m', n', M'), v, v'), rest) ->
  judge_rel rec = 0 ->
  let rs := map Z.to_nat p1 in let cs := map Z.to_nat p2 in
  (* verified by the judge *)
  strictly_increasing rs = true /\ strictly_increasing cs = true /\
  all_lt m rs = true /\ all_lt n cs = true /\
  m' = length rs /\ n' = length cs /\ M' = submat M rs cs /\
  (forall i, (i < 9)%nat -> imp_at v v' i = true) /\
  (* theorems about the definitions: every compared property is inherited by submatrices *)
  (tu_bf m n M = true -> tu_bf m' n' M' = true) /\
  (regular_bf m n M = true -> regular_bf m' n' M' = true) /\
  (forall t, sp_greedy t m n M = true -> sp_greedy t m' n' M' = true) /\
  (balanced_bf m n M = true -> balanced_bf m' n' M' = true) /\
  (GraphicP m n M -> GraphicP m' n' M') /\
  (NetworkP m n M -> NetworkP m' n' M').
Proof.
  intros rec p1 p2 m n M m' n' M' v v' rest Hdec HJ rs cs.
  pose proof (rel_input_wf _ _ _ _ _ _ _ _ _ _ _ _ _ Hdec) as HW.
  destruct (judge_rel_kind5 _ _ _ _ _ _ _ _ _ _ _ _ Hdec HJ) as (S1 & S2 & A1 & A2 & Em & En & EM & I & SP & B).
  fold rs cs in S1, S2, A1, A2, Em, En, EM.
  split; [exact S1|]. split; [exact S2|]. split; [exact A1|]. split; [exact A2|].
  split; [exact Em|]. split; [exact En|]. split; [exact EM|]. split; [exact I|].
  split.
  { subst m' n' M'. exact (@TuClosure.tu_bf_submat m n M rs cs A1 A2). }
  split.
  { subst m' n' M'. exact (RegClosure.regular_bf_submat m n M rs cs HW A1 A2). }
  split; [exact SP|]. split; [exact B|].
  split.
  - subst m' n' M'. exact (GraphicClosure.GraphicP_submat m n M rs cs HW S1 S2 A1 A2).
  - subst m' n' M'. exact (NetworkClosure.NetworkP_submat m n M rs cs HW S1 S2 A1 A2).
Qed.

(* ------------------------------------------------------------------------------------------ *)
(* kinds 6 and 7: ternary / binary pivot (re-export of RelPivot.v / RelPivot7.v under the same naming scheme)        *)
(* ------------------------------------------------------------------------------------------ *)

Theorem judge_rel_kind6_closure : forall rec p1 p2 m n M m' n' M' v v' rest,
  rel_input rec = Some ((6, p1, p2, (m, n, M), (m', n', M'), v, v'), rest) ->
  judge_rel rec = 0 ->
  exists r c, p1 = [r; c] /\ 0 <= r < Z.of_nat m /\ 0 <= c < Z.of_nat n /\ m' = m /\ n' = n /\
    is_ternary M = true /\ get M (Z.to_nat r) (Z.to_nat c) <> 0 /\
    M' = reduce 3 (pivot_raw m n M (Z.to_nat r) (Z.to_nat c)) /\
    same_at v v' V_TU V_TU = true /\
    (* theorem about the definition (TuPivot.tu_bf_tpivot_std) *)
    tu_bf m' n' M' = tu_bf m n M.
Proof. exact judge_rel_kind6. Qed.

Theorem judge_rel_kind7_closure : forall rec p1 p2 m n M m' n' M' v v' rest,
  rel_input rec = Some ((7, p1, p2, (m, n, M), (m', n', M'), v, v'), rest) ->
  judge_rel rec = 0 ->
  exists r c, p1 = [r; c] /\ 0 <= r < Z.of_nat m /\ 0 <= c < Z.of_nat n /\ m' = m /\ n' = n /\
    is_binary M = true /\ get M (Z.to_nat r) (Z.to_nat c) = 1 /\
    M' = reduce 2 (pivot_raw m n M (Z.to_nat r) (Z.to_nat c)) /\
    same_at v v' V_REG V_REG = true /\
    (* theorem about the definition (RegPivot.regular_bf_bpivot_std) *)
    regular_bf m' n' M' = regular_bf m n M.
Proof. exact judge_rel_kind7. Qed.

Print Assumptions regular_bf_perm.
Print Assumptions judge_rel_kind1_closure.
Print Assumptions judge_rel_kind2_closure.
Print Assumptions judge_rel_kind3_closure.
Print Assumptions judge_rel_kind4_closure.
Print Assumptions judge_rel_kind5_closure.
Print Assumptions judge_rel_kind6_closure.
Print Assumptions judge_rel_kind7_closure.
