(* StackProofs.v — proofs about the scratch-stack allocator model of StackModel.v:
   invariant, LIFO law, usage monotonicity, trace theorems, soundness of judge_stack. *)
From Cmr Require Import Base BaseProofs StackModel.
Local Open Scope Z_scope.

(* ------------------------------------------------------------------------------------------ *)
(* 0. Basic facts                                                                               *)
(* ------------------------------------------------------------------------------------------ *)

Lemma round_size_bounds : forall sz, Z.max sz 4 <= round_size sz <= Z.max sz 4 + 7 /\ 8 <= round_size sz.
Proof.
  intros sz. unfold round_size, WORD.
  pose proof (Z.div_mod (Z.max sz 4 + 8 - 1) 8 ltac:(lia)) as E.
  pose proof (Z.mod_pos_bound (Z.max sz 4 + 8 - 1) 8 ltac:(lia)) as B.
  pose proof (Z.le_max_r sz 4) as M.
  lia.
Qed.

Lemma ovh_bounds : forall dbg, 8 <= ovh dbg <= 16.
Proof. intros [|]; unfold ovh, WORD; lia. Qed.

Lemma chunk_bounds : forall dbg sz, Z.max sz 4 + 8 <= chunk dbg sz <= Z.max sz 4 + 23.
Proof.
  intros dbg sz. unfold chunk. pose proof (round_size_bounds sz). pose proof (ovh_bounds dbg). lia.
Qed.

(* best easy lower bound; no hypothesis on sz is needed *)
Lemma chunk_ge16 : forall dbg sz, 16 <= chunk dbg sz.
Proof.
  intros dbg sz. unfold chunk. pose proof (round_size_bounds sz). pose proof (ovh_bounds dbg). lia.
Qed.

Lemma chunk_pos : forall dbg sz, 0 < chunk dbg sz.
Proof. intros dbg sz. pose proof (chunk_ge16 dbg sz). lia. Qed.

Lemma cap_0 : cap 0 = 4096.
Proof. reflexivity. Qed.

Lemma cap_S : forall k, cap (S k) = 2 * cap k.
Proof.
  intros k. unfold cap, FIRST_STACK_SIZE. rewrite Nat2Z.inj_succ, Z.pow_succ_r by lia. lia.
Qed.

Lemma cap_pos : forall k, 0 < cap k.
Proof. induction k; [rewrite cap_0 | rewrite cap_S]; lia. Qed.

Lemma cap_mono : forall j k, (j <= k)%nat -> cap j <= cap k.
Proof.
  intros j k H. induction H; [lia|]. rewrite cap_S. pose proof (cap_pos m). lia.
Qed.

Lemma cap_strict_mono : forall j k, (j < k)%nat -> cap j < cap k.
Proof.
  intros j k H. pose proof (cap_mono (S j) k H) as M. rewrite cap_S in M. pose proof (cap_pos j). lia.
Qed.

Lemma caps_below_S : forall k, caps_below (S k) = caps_below k + cap k.
Proof. reflexivity. Qed.

Lemma caps_below_nonneg : forall k, 0 <= caps_below k.
Proof. induction k; [cbn [caps_below]; lia|]. rewrite caps_below_S. pose proof (cap_pos k). lia. Qed.

Lemma caps_below_mono : forall j k, (j <= k)%nat -> caps_below j <= caps_below k.
Proof.
  intros j k H. induction H; [lia|]. rewrite caps_below_S. pose proof (cap_pos m). lia.
Qed.

Lemma caps_below_zero : forall k, caps_below k = 0 -> k = 0%nat.
Proof.
  intros [|k] H; [reflexivity|]. rewrite caps_below_S in H.
  pose proof (cap_pos k). pose proof (caps_below_nonneg k). lia.
Qed.

(* caps_below k = cap k - cap 0: the capacities double *)
Lemma caps_below_closed : forall k, caps_below k = cap k - 4096.
Proof.
  induction k; [reflexivity|]. rewrite caps_below_S, cap_S, IHk. lia.
Qed.

Lemma used_nil : used [] = 0.
Proof. reflexivity. Qed.

Lemma used_cons : forall c h, used (c :: h) = c + used h.
Proof. reflexivity. Qed.

(* ------------------------------------------------------------------------------------------ *)
(* 1. The invariant                                                                              *)
(* ------------------------------------------------------------------------------------------ *)

Definition chunks_ok (l : list Z) := Forall (fun c => 0 < c) l.

(* every stack's used bytes fit its capacity; the stack with index k from the bottom has capacity cap k *)
Fixpoint fits (s : sstate) : Prop :=
  match s with
  | [] => True
  | h :: lower => used h <= cap (length lower) /\ fits lower
  end.

Definition Inv (s : sstate) : Prop :=
  match s with
  | [] => False
  | h :: lower => (h <> [] \/ lower = []) /\ Forall chunks_ok s /\ fits s
  end.

(* the index formulation of `fits` *)
Lemma fits_nth : forall s,
  fits s <-> (forall k, (k < length s)%nat -> used (nth (length s - 1 - k) s []) <= cap k).
Proof.
  induction s as [|h lower IH].
  - cbn [fits length]. split; [intros _ k Hk; lia | trivial].
  - cbn [fits]. split.
    + intros [Hh Hl] k Hk. cbn [length] in *.
      destruct (Nat.eq_dec k (length lower)) as [->|Ne].
      * replace (S (length lower) - 1 - length lower)%nat with 0%nat by lia. exact Hh.
      * replace (S (length lower) - 1 - k)%nat with (S (length lower - 1 - k)) by lia.
        cbn [nth]. apply IH; [exact Hl | lia].
    + intros H. split.
      * specialize (H (length lower)). cbn [length] in H.
        replace (S (length lower) - 1 - length lower)%nat with 0%nat in H by lia.
        apply H. lia.
      * apply IH. intros k Hk. specialize (H k). cbn [length] in H.
        replace (S (length lower) - 1 - k)%nat with (S (length lower - 1 - k)) in H by lia.
        apply H. lia.
Qed.

(* Inv in exactly the shape of the specification *)
Lemma Inv_spec : forall s,
  Inv s <->
  match s with
  | [] => False
  | h :: lower => (h <> [] \/ lower = []) /\ Forall chunks_ok s /\
                  (forall k, (k < length s)%nat -> used (nth (length s - 1 - k) s []) <= cap k)
  end.
Proof.
  intros [|h lower]; [reflexivity|]. unfold Inv. rewrite (fits_nth (h :: lower)). reflexivity.
Qed.

Lemma used_nonneg : forall l, chunks_ok l -> 0 <= used l.
Proof.
  induction l as [|c l IH]; intros H; [rewrite used_nil; lia|].
  rewrite used_cons. inversion H; subst. specialize (IH H3). lia.
Qed.

Lemma used_zero : forall l, chunks_ok l -> used l = 0 -> l = [].
Proof.
  intros [|c l] H E; [reflexivity|]. exfalso.
  rewrite used_cons in E. inversion H; subst. pose proof (used_nonneg l H3). lia.
Qed.

Lemma Inv_init : Inv s_init.
Proof.
  unfold s_init, Inv. split; [right; reflexivity|]. split.
  - constructor; [constructor | constructor].
  - cbn [fits length]. rewrite used_nil. pose proof (cap_pos 0). lia.
Qed.

Lemma Inv_nonempty : forall s, Inv s -> s <> [].
Proof. intros [|h l] H; [destruct H | discriminate]. Qed.

(* ---------- grow ---------- *)

Lemma repeat_shift : forall (A : Type) (x : A) k l, repeat x k ++ x :: l = x :: repeat x k ++ l.
Proof. intros A x. induction k; intros l; cbn [repeat app]; [reflexivity | now rewrite IHk]. Qed.

Lemma grow_spec : forall fuel req s s', grow fuel req s = Some s' ->
  exists k, s' = [] :: repeat [] k ++ s /\ req <= cap (length s + k).
Proof.
  induction fuel; intros req s s' H; cbn [grow] in H; [discriminate|].
  destruct (req <=? cap (length s)) eqn:E.
  - inversion H; subst. exists 0%nat. split; [reflexivity|].
    apply Z.leb_le in E. rewrite Nat.add_0_r. exact E.
  - apply IHfuel in H. destruct H as [k [-> Hk]]. exists (S k). split.
    + rewrite repeat_shift. reflexivity.
    + cbn [length] in Hk. replace (length s + S k)%nat with (S (length s) + k)%nat by lia. exact Hk.
Qed.

(* the shape alone, as in the specification *)
Lemma grow_shape : forall fuel req s s', grow fuel req s = Some s' ->
  exists k, s' = repeat [] (S k) ++ s.
Proof.
  intros fuel req s s' H. apply grow_spec in H. destruct H as [k [-> _]]. exists k. reflexivity.
Qed.

Lemma grow_total : forall fuel req s, (0 < fuel)%nat -> req <= cap (length s + fuel - 1) ->
  exists s', grow fuel req s = Some s'.
Proof.
  induction fuel; intros req s Hf Hr; [lia|]. cbn [grow].
  destruct (req <=? cap (length s)) eqn:E; [eauto|]. apply Z.leb_gt in E.
  destruct fuel as [|f].
  - exfalso. replace (length s + 1 - 1)%nat with (length s) in Hr by lia. lia.
  - apply IHfuel; [lia|]. cbn [length].
    replace (S (length s) + S f - 1)%nat with (length s + S (S f) - 1)%nat by lia. exact Hr.
Qed.

Lemma fits_repeat : forall k s, fits s -> fits (repeat [] k ++ s).
Proof.
  induction k; intros s H; cbn [repeat app fits]; [exact H|]. split; [|now apply IHk].
  rewrite used_nil. pose proof (cap_pos (length (repeat [] k ++ s))). lia.
Qed.

Lemma chunks_ok_repeat : forall k s, Forall chunks_ok s -> Forall chunks_ok (repeat [] k ++ s).
Proof.
  induction k; intros s H; cbn [repeat app]; [exact H|]. constructor; [constructor | now apply IHk].
Qed.

Lemma length_repeat_app : forall (A : Type) (x : A) k l, length (repeat x k ++ l) = (length l + k)%nat.
Proof. intros. rewrite app_length, repeat_length. lia. Qed.

(* ---------- case analysis of s_alloc ---------- *)

Lemma alloc_cases : forall dbg sz s s', s_alloc dbg sz s = Some s' ->
  exists h lower, s = h :: lower /\
    ((chunk dbg sz + used h <= cap (length lower) /\ s' = (chunk dbg sz :: h) :: lower) \/
     (exists k, cap (length lower) < chunk dbg sz + used h /\
                chunk dbg sz <= cap (length s + k) /\
                s' = [chunk dbg sz] :: repeat [] k ++ s)).
Proof.
  intros dbg sz s s' H. unfold s_alloc in H. destruct s as [|h lower]; [discriminate|].
  exists h, lower. split; [reflexivity|]. cbv zeta in H.
  destruct (chunk dbg sz <=? cap (length lower) - used h) eqn:E.
  - left. apply Z.leb_le in E. inversion H; subst. split; [lia | reflexivity].
  - right. apply Z.leb_gt in E.
    destruct (grow 64 (chunk dbg sz) (h :: lower)) as [[|h' l']|] eqn:G; try discriminate.
    apply grow_spec in G. destruct G as [k [G1 G2]]. inversion G1; subst. inversion H; subst.
    exists k. split; [lia|]. split; [exact G2 | reflexivity].
Qed.

Lemma alloc_Inv : forall dbg sz s s', Inv s -> s_alloc dbg sz s = Some s' -> Inv s'.
Proof.
  intros dbg sz s s' HI H. apply alloc_cases in H.
  destruct H as [h [lower [-> [[Hc ->] | [k [Hc [Hk ->]]]]]]].
  - destruct HI as [_ [HF Hfit]]. cbn [fits] in Hfit. destruct Hfit as [Hh Hl].
    unfold Inv. split; [left; discriminate|]. split.
    + inversion HF; subst. constructor; [|assumption].
      constructor; [apply chunk_pos | assumption].
    + cbn [fits]. split; [rewrite used_cons; lia | exact Hl].
  - destruct HI as [_ [HF Hfit]].
    unfold Inv. split; [left; discriminate|]. split.
    + constructor; [constructor; [apply chunk_pos | constructor]|]. now apply chunks_ok_repeat.
    + cbn [fits]. split; [|now apply fits_repeat].
      rewrite used_cons, used_nil, length_repeat_app. lia.
Qed.

(* ---------- unwind / s_free ---------- *)

Lemma unwind_id : forall h lower, (h <> [] \/ lower = []) -> unwind (h :: lower) = h :: lower.
Proof.
  intros [|c h] lower H; [|reflexivity].
  destruct H as [H | ->]; [congruence | reflexivity].
Qed.

Lemma unwind_Inv_id : forall s, Inv s -> unwind s = s.
Proof. intros [|h lower] H; [destruct H|]. apply unwind_id. apply H. Qed.

Lemma unwind_repeat : forall k s, s <> [] -> unwind (repeat [] k ++ s) = unwind s.
Proof.
  induction k; intros s Hs; cbn [repeat app]; [reflexivity|].
  cbn [unwind]. destruct (repeat [] k ++ s) as [|x r] eqn:E.
  - apply app_eq_nil in E. destruct E as [_ E]. congruence.
  - rewrite <- E. now apply IHk.
Qed.

Lemma unwind_Inv : forall s, s <> [] -> Forall chunks_ok s -> fits s -> Inv (unwind s).
Proof.
  induction s as [|h lower IH]; intros Hn HF Hfit; [congruence|].
  destruct h as [|c h].
  - destruct lower as [|h2 l2].
    + cbn [unwind]. unfold Inv. split; [right; reflexivity|]. split; assumption.
    + cbn [unwind]. change (Inv (unwind (h2 :: l2))). apply IH; [discriminate | |].
      * now inversion HF.
      * cbn [fits] in Hfit. apply Hfit.
  - cbn [unwind]. unfold Inv. split; [left; discriminate|]. split; assumption.
Qed.

Lemma free_Inv : forall s s', Inv s -> s_free s = Some s' -> Inv s'.
Proof.
  intros s s' HI H. unfold s_free in H.
  destruct s as [|[|c h] lower]; try discriminate. injection H as <-.
  destruct HI as [_ [HF Hfit]]. apply (unwind_Inv (h :: lower)); [discriminate | |].
  - inversion HF; subst. constructor; [|assumption]. now inversion H1.
  - cbn [fits] in *. destruct Hfit as [Hh Hl]. split; [|exact Hl].
    rewrite used_cons in Hh. inversion HF; subst. inversion H1; subst. lia.
Qed.

Lemma cap_63 : cap 63 = 4096 * 9223372036854775808.
Proof. reflexivity. Qed.

Lemma alloc_total : forall dbg sz s, Inv s -> 0 <= sz < 2 ^ 40 -> exists s', s_alloc dbg sz s = Some s'.
Proof.
  intros dbg sz s HI Hsz. destruct s as [|h lower]; [destruct HI|].
  unfold s_alloc. cbv zeta.
  destruct (chunk dbg sz <=? cap (length lower) - used h); [eauto|].
  destruct (grow_total 64 (chunk dbg sz) (h :: lower)) as [s1 G]; [lia | |].
  - pose proof (chunk_bounds dbg sz) as B.
    pose proof (cap_mono 63 (length (h :: lower) + 64 - 1) ltac:(lia)) as M.
    rewrite cap_63 in M. change (2 ^ 40) with 1099511627776 in Hsz. lia.
  - rewrite G. apply grow_spec in G. destruct G as [k [-> _]]. eauto.
Qed.

(* ------------------------------------------------------------------------------------------ *)
(* 2. The LIFO law                                                                               *)
(* ------------------------------------------------------------------------------------------ *)

Theorem alloc_free : forall dbg sz s s', Inv s -> s_alloc dbg sz s = Some s' -> s_free s' = Some s.
Proof.
  intros dbg sz s s' HI H. apply alloc_cases in H.
  destruct H as [h [lower [-> [[Hc ->] | [k [Hc [Hk ->]]]]]]].
  - unfold s_free. f_equal. apply unwind_Inv_id. exact HI.
  - unfold s_free. f_equal.
    change ([] :: repeat [] k ++ h :: lower) with (repeat [] (S k) ++ h :: lower).
    rewrite unwind_repeat by discriminate. apply unwind_Inv_id. exact HI.
Qed.

(* ------------------------------------------------------------------------------------------ *)
(* 3. Usage                                                                                      *)
(* ------------------------------------------------------------------------------------------ *)

Lemma usage_init : usage s_init = 0.
Proof. reflexivity. Qed.

Lemma usage_nonneg : forall s, Inv s -> 0 <= usage s.
Proof.
  intros [|h lower] HI; [destruct HI|]. unfold usage. destruct HI as [_ [HF _]].
  pose proof (caps_below_nonneg (length lower)). inversion HF; subst.
  pose proof (used_nonneg h H2). lia.
Qed.

Lemma usage_zero_init : forall s, Inv s -> usage s = 0 -> s = s_init.
Proof.
  intros [|h lower] HI E; [destruct HI|]. unfold usage in E. destruct HI as [_ [HF _]].
  pose proof (caps_below_nonneg (length lower)). inversion HF; subst.
  pose proof (used_nonneg h H2).
  assert (Hh : used h = 0) by lia. assert (Hc : caps_below (length lower) = 0) by lia.
  apply used_zero in Hh; [|assumption]. apply caps_below_zero in Hc.
  apply length_zero_iff_nil in Hc. subst. reflexivity.
Qed.

Theorem usage_alloc : forall dbg sz s s', Inv s -> s_alloc dbg sz s = Some s' ->
  usage s + chunk dbg sz <= usage s'.
Proof.
  intros dbg sz s s' HI H. apply alloc_cases in H.
  destruct H as [h [lower [-> [[Hc ->] | [k [Hc [Hk ->]]]]]]].
  - unfold usage. rewrite used_cons. lia.
  - unfold usage. rewrite used_cons, used_nil, length_repeat_app. cbn [length].
    destruct HI as [_ [_ Hfit]]. cbn [fits] in Hfit. destruct Hfit as [Hh _].
    pose proof (caps_below_mono (S (length lower)) (S (length lower) + k) ltac:(lia)) as M.
    rewrite caps_below_S in M. lia.
Qed.

(* equality when no new stack is opened *)
Lemma usage_alloc_same_stack : forall dbg sz h lower,
  chunk dbg sz + used h <= cap (length lower) ->
  exists s', s_alloc dbg sz (h :: lower) = Some s' /\ usage s' = usage (h :: lower) + chunk dbg sz.
Proof.
  intros dbg sz h lower H. unfold s_alloc. cbv zeta.
  destruct (chunk dbg sz <=? cap (length lower) - used h) eqn:E.
  - eexists. split; [reflexivity|]. unfold usage. rewrite used_cons. lia.
  - apply Z.leb_gt in E. lia.
Qed.

Corollary usage_alloc_lt : forall dbg sz s s', Inv s -> s_alloc dbg sz s = Some s' -> usage s < usage s'.
Proof.
  intros dbg sz s s' HI H. pose proof (usage_alloc _ _ _ _ HI H). pose proof (chunk_pos dbg sz). lia.
Qed.

(* ------------------------------------------------------------------------------------------ *)
(* 4. Traces                                                                                     *)
(* ------------------------------------------------------------------------------------------ *)

Fixpoint allocs (dbg : bool) (l : list Z) (s : sstate) : option sstate :=
  match l with
  | [] => Some s
  | sz :: r => match s_alloc dbg sz s with Some s' => allocs dbg r s' | None => None end
  end.

Lemma allocs_app : forall dbg l1 l2 s,
  allocs dbg (l1 ++ l2) s = match allocs dbg l1 s with Some s1 => allocs dbg l2 s1 | None => None end.
Proof.
  intros dbg. induction l1 as [|a l1 IH]; intros l2 s; cbn [app allocs]; [reflexivity|].
  destruct (s_alloc dbg a s); [apply IH | reflexivity].
Qed.

Lemma allocs_snoc : forall dbg l a s0 s, allocs dbg (l ++ [a]) s0 = Some s ->
  exists s2, allocs dbg l s0 = Some s2 /\ s_alloc dbg a s2 = Some s.
Proof.
  intros dbg l a s0 s H. rewrite allocs_app in H.
  destruct (allocs dbg l s0) as [s2|]; [|discriminate]. exists s2. split; [reflexivity|].
  cbn [allocs] in H. destruct (s_alloc dbg a s2); [exact H | discriminate].
Qed.

Lemma allocs_snoc_intro : forall dbg l a s0 s2 s, allocs dbg l s0 = Some s2 -> s_alloc dbg a s2 = Some s ->
  allocs dbg (l ++ [a]) s0 = Some s.
Proof.
  intros dbg l a s0 s2 s H1 H2. rewrite allocs_app, H1. cbn [allocs]. rewrite H2. reflexivity.
Qed.

Lemma allocs_Inv : forall dbg l s s', Inv s -> allocs dbg l s = Some s' -> Inv s'.
Proof.
  intros dbg. induction l as [|a l IH]; intros s s' HI H; cbn [allocs] in H.
  - inversion H; subst; exact HI.
  - destruct (s_alloc dbg a s) as [s1|] eqn:E; [|discriminate].
    eapply IH; [|exact H]. eapply alloc_Inv; eassumption.
Qed.

Lemma allocs_usage : forall dbg l s s', Inv s -> allocs dbg l s = Some s' ->
  usage s + used (map (chunk dbg) l) <= usage s'.
Proof.
  intros dbg. induction l as [|a l IH]; intros s s' HI H; cbn [allocs map] in *.
  - inversion H; subst. rewrite used_nil. lia.
  - destruct (s_alloc dbg a s) as [s1|] eqn:E; [|discriminate].
    pose proof (usage_alloc _ _ _ _ HI E). pose proof (alloc_Inv _ _ _ _ HI E) as HI1.
    specialize (IH _ _ HI1 H). rewrite used_cons. lia.
Qed.

Lemma used_chunks_nonneg : forall dbg l, 0 <= used (map (chunk dbg) l).
Proof.
  intros dbg. induction l as [|a l IH]; cbn [map]; [rewrite used_nil; lia|].
  rewrite used_cons. pose proof (chunk_pos dbg a). lia.
Qed.

Lemma allocs_usage_lt : forall dbg l s s', Inv s -> allocs dbg l s = Some s' -> l <> [] -> usage s < usage s'.
Proof.
  intros dbg l s s' HI H Hn. pose proof (allocs_usage _ _ _ _ HI H) as U.
  destruct l as [|a l]; [congruence|]. cbn [map] in U. rewrite used_cons in U.
  pose proof (chunk_pos dbg a). pose proof (used_chunks_nonneg dbg l). lia.
Qed.

(* a run that starts after the allocations `rev acc0` and whose abstract LIFO discipline ends with the pending
   list p ends in the state obtained by allocating just `rev p` *)
Theorem run_pending : forall dbg s0 ops s s' acc0 p, Inv s0 ->
  allocs dbg (rev acc0) s0 = Some s -> s_run dbg ops s = Some s' -> pending ops acc0 = Some p ->
  allocs dbg (rev p) s0 = Some s'.
Proof.
  intros dbg s0. induction ops as [|o ops IH]; intros s s' acc0 p HI0 HA HR HP.
  - cbn [s_run pending] in *. inversion HR; inversion HP; subst. exact HA.
  - cbn [s_run] in HR. destruct (s_step dbg s o) as [s1|] eqn:E; [|discriminate].
    destruct o as [sz|]; cbn [s_step pending] in *.
    + eapply IH; [exact HI0 | | exact HR | exact HP].
      cbn [rev]. eapply allocs_snoc_intro; eassumption.
    + destruct acc0 as [|a acc]; [discriminate|].
      cbn [rev] in HA. apply allocs_snoc in HA. destruct HA as [s2 [HA2 HS]].
      pose proof (allocs_Inv _ _ _ _ HI0 HA2) as HI2.
      pose proof (alloc_free _ _ _ _ HI2 HS) as HF. rewrite HF in E. inversion E; subst.
      eapply IH; eassumption.
Qed.

Corollary run_pending0 : forall dbg ops s s' p, Inv s ->
  s_run dbg ops s = Some s' -> pending ops [] = Some p -> allocs dbg (rev p) s = Some s'.
Proof. intros dbg ops s s' p HI HR HP. eapply run_pending; try eassumption. reflexivity. Qed.

Theorem balanced_restores : forall dbg ops s s', Inv s ->
  s_run dbg ops s = Some s' -> pending ops [] = Some [] -> s' = s.
Proof.
  intros dbg ops s s' HI HR HP. pose proof (run_pending0 _ _ _ _ _ HI HR HP) as H.
  cbn [rev allocs] in H. now inversion H.
Qed.

Corollary balanced_usage : forall dbg ops s s', Inv s ->
  s_run dbg ops s = Some s' -> pending ops [] = Some [] -> usage s' = usage s.
Proof. intros. f_equal. eapply balanced_restores; eassumption. Qed.

Theorem leak_detected : forall dbg ops s s' p, Inv s ->
  s_run dbg ops s = Some s' -> pending ops [] = Some p -> p <> [] -> usage s < usage s'.
Proof.
  intros dbg ops s s' p HI HR HP Hn. pose proof (run_pending0 _ _ _ _ _ HI HR HP) as H.
  eapply allocs_usage_lt; [exact HI | exact H|].
  intros E. apply Hn. apply (f_equal (@rev Z)) in E. rewrite rev_involutive in E. exact E.
Qed.

(* quantitative form: the leaked chunks are all counted *)
Theorem leak_amount : forall dbg ops s s' p, Inv s ->
  s_run dbg ops s = Some s' -> pending ops [] = Some p ->
  usage s + used (map (chunk dbg) (rev p)) <= usage s'.
Proof.
  intros dbg ops s s' p HI HR HP. pose proof (run_pending0 _ _ _ _ _ HI HR HP) as H.
  eapply allocs_usage; eassumption.
Qed.

Theorem run_Inv : forall dbg ops s s', Inv s -> s_run dbg ops s = Some s' -> Inv s'.
Proof.
  intros dbg. induction ops as [|o ops IH]; intros s s' HI HR; cbn [s_run] in HR.
  - inversion HR; subst; exact HI.
  - destruct (s_step dbg s o) as [s1|] eqn:E; [|discriminate].
    eapply IH; [|exact HR]. destruct o as [sz|]; cbn [s_step] in E.
    + eapply alloc_Inv; eassumption.
    + eapply free_Inv; eassumption.
Qed.

Definition op_ok (o : sop) : Prop := match o with SAlloc sz => 0 <= sz < 2 ^ 40 | SFree => True end.

Lemma run_defined_gen : forall dbg s0 ops s acc0 p, Inv s0 -> Forall op_ok ops ->
  allocs dbg (rev acc0) s0 = Some s -> pending ops acc0 = Some p ->
  exists s', s_run dbg ops s = Some s'.
Proof.
  intros dbg s0. induction ops as [|o ops IH]; intros s acc0 p HI0 HF HA HP.
  - cbn [s_run]. eauto.
  - inversion HF as [|? ? Ho HF']; subst. cbn [s_run].
    pose proof (allocs_Inv _ _ _ _ HI0 HA) as HI.
    destruct o as [sz|]; cbn [s_step pending] in *.
    + destruct (alloc_total dbg sz s HI Ho) as [s1 E]. rewrite E.
      eapply IH; [exact HI0 | exact HF' | | exact HP].
      cbn [rev]. eapply allocs_snoc_intro; eassumption.
    + destruct acc0 as [|a acc]; [discriminate|].
      cbn [rev] in HA. apply allocs_snoc in HA. destruct HA as [s2 [HA2 HS]].
      pose proof (allocs_Inv _ _ _ _ HI0 HA2) as HI2.
      rewrite (alloc_free _ _ _ _ HI2 HS).
      eapply IH; eassumption.
Qed.

Theorem run_defined : forall dbg ops s p, Inv s -> Forall op_ok ops -> pending ops [] = Some p ->
  exists s', s_run dbg ops s = Some s'.
Proof.
  intros dbg ops s p HI HF HP. eapply run_defined_gen; try eassumption. reflexivity.
Qed.

(* ------------------------------------------------------------------------------------------ *)
(* 5. Runs from the initial state and the judge                                                  *)
(* ------------------------------------------------------------------------------------------ *)

Lemma run_pending_exists_gen : forall d ops s s' acc0,
  allocs d (rev acc0) s_init = Some s -> s_run d ops s = Some s' ->
  exists p, pending ops acc0 = Some p /\ allocs d (rev p) s_init = Some s'.
Proof.
  intros d. induction ops as [|o ops IH]; intros s s' acc0 HA HR.
  - cbn [s_run pending] in *. inversion HR; subst. eauto.
  - cbn [s_run] in HR. destruct (s_step d s o) as [s1|] eqn:E; [|discriminate].
    destruct o as [sz|]; cbn [s_step pending] in *.
    + eapply IH; [|exact HR]. cbn [rev]. eapply allocs_snoc_intro; eassumption.
    + destruct acc0 as [|a acc].
      * cbn [rev allocs] in HA. inversion HA; subst. discriminate E.
      * cbn [rev] in HA. apply allocs_snoc in HA. destruct HA as [s2 [HA2 HS]].
        pose proof (allocs_Inv _ _ _ _ Inv_init HA2) as HI2.
        pose proof (alloc_free _ _ _ _ HI2 HS) as HF. rewrite HF in E. inversion E; subst.
        eapply IH; eassumption.
Qed.

(* a successful run from the initial state never frees more than it allocated *)
Theorem run_pending_exists : forall d ops s', s_run d ops s_init = Some s' ->
  exists p, pending ops [] = Some p /\ allocs d (rev p) s_init = Some s'.
Proof. intros d ops s' H. eapply run_pending_exists_gen; [reflexivity | exact H]. Qed.

Theorem run_init_balanced : forall d ops, s_run d ops s_init = Some s_init -> pending ops [] = Some [].
Proof.
  intros d ops H. destruct (run_pending_exists _ _ _ H) as [p [HP HA]].
  destruct p as [|a p]; [exact HP|]. exfalso.
  assert (Hn : rev (a :: p) <> []).
  { intros E. apply (f_equal (@rev Z)) in E. rewrite rev_involutive in E. discriminate E. }
  pose proof (allocs_usage_lt _ _ _ _ Inv_init HA Hn) as U. lia.
Qed.

(* ---------- judge ---------- *)

Definition op_of (e : Z * Z * Z) : sop := if fst (fst e) =? 1 then SAlloc (snd (fst e)) else SFree.

(* the usage reported with every event equals the usage of the model state after that event *)
Fixpoint usages_match (d : bool) (ev : list (Z * Z * Z)) (s : sstate) : Prop :=
  match ev with
  | [] => True
  | e :: r => exists s', s_step d s (op_of e) = Some s' /\ usage s' = snd e /\ usages_match d r s'
  end.

(* index form of usages_match: after the first i+1 events the model's usage is the reported one *)
Lemma usages_match_nth : forall d ev s, usages_match d ev s ->
  forall i e, nth_error ev i = Some e ->
  exists s', s_run d (firstn (S i) (map op_of ev)) s = Some s' /\ usage s' = snd e.
Proof.
  intros d. induction ev as [|e0 ev IH]; intros s HM i e Hn.
  - destruct i; discriminate.
  - cbn [usages_match] in HM. destruct HM as [s1 [E [U HM]]].
    cbn [map firstn s_run]. rewrite E. destruct i as [|i]; cbn [nth_error] in Hn.
    + inversion Hn; subst. cbn [firstn s_run]. eauto.
    + apply (IH _ HM _ _ Hn).
Qed.

Lemma replay_inl : forall d ev s c, replay d ev s = inl c -> c = 2 \/ c = 3.
Proof.
  intros d. induction ev as [|[[k sz] u] ev IH]; intros s c H; cbn [replay] in H; [discriminate|].
  destruct (if k =? 1 then s_alloc d sz s else s_free s) as [s1|].
  - destruct (usage s1 =? u); [eapply IH; exact H | inversion H; auto].
  - inversion H; auto.
Qed.

Lemma replay_inr : forall d ev s s', replay d ev s = inr s' ->
  s_run d (map op_of ev) s = Some s' /\ usages_match d ev s.
Proof.
  intros d. induction ev as [|[[k sz] u] ev IH]; intros s s' H; cbn [replay] in H.
  - inversion H; subst. cbn [map s_run usages_match]. auto.
  - cbn [map s_run usages_match].
    assert (Es : s_step d s (op_of (k, sz, u)) = if k =? 1 then s_alloc d sz s else s_free s).
    { unfold op_of. cbn [fst snd]. destruct (k =? 1); reflexivity. }
    rewrite Es.
    destruct (if k =? 1 then s_alloc d sz s else s_free s) as [s1|]; [|discriminate].
    destruct (usage s1 =? u) eqn:U; [|discriminate]. apply Z.eqb_eq in U.
    destruct (IH _ _ H) as [HR HM]. split; [exact HR|].
    exists s1. cbn [snd]. auto.
Qed.

Definition ev_ok (e : Z * Z * Z) : Prop :=
  (fst (fst e) = 1 /\ 0 <= snd (fst e) < 2 ^ 40) \/ fst (fst e) = 2.

Theorem judge_stack_sound : forall rec, judge_stack rec = 0 ->
  exists dbg evs,
    (d <- dbool ;; ev <- dlist dev ;; dend (d, ev)) rec = Some ((dbg, evs), []) /\
    let ops := map op_of evs in
    Forall ev_ok evs /\
    s_run dbg ops s_init = Some s_init /\
    pending ops [] = Some [] /\
    usages_match dbg evs s_init.
Proof.
  intros rec H. unfold judge_stack in H.
  destruct ((d <- dbool ;; ev <- dlist dev ;; dend (d, ev)) rec) as [[[d ev] rest]|] eqn:D;
    [|discriminate].
  assert (rest = []) as ->.
  { unfold dbind in D. destruct (dbool rec) as [[d0 r0]|]; [|discriminate].
    destruct (dlist dev r0) as [[ev0 r1]|]; [|discriminate].
    unfold dend in D. destruct r1; [|discriminate]. now inversion D. }
  exists d, ev. split; [reflexivity|]. cbv zeta.
  destruct (negb _) eqn:F in H; [discriminate|].
  destruct (replay d ev s_init) as [c|s] eqn:R.
  - apply replay_inl in R. lia.
  - destruct (list_eqb zlist_eqb s s_init) eqn:Q; [|discriminate].
    apply mat_eqb_eq in Q. subst s.
    apply replay_inr in R. destruct R as [HR HM].
    split; [|split; [exact HR | split; [eapply run_init_balanced; exact HR | exact HM]]].
    apply negb_false_iff in F. rewrite forallb_forall in F.
    apply Forall_forall. intros [[k sz] u] Hin. apply F in Hin. cbv beta iota zeta in Hin.
    unfold ev_ok. cbn [fst snd].
    apply orb_true_iff in Hin. destruct Hin as [Hin | Hin].
    + apply andb_true_iff in Hin. destruct Hin as [Hin H3].
      apply andb_true_iff in Hin. destruct Hin as [H1 H2].
      apply Z.eqb_eq in H1. apply Z.leb_le in H2. apply Z.ltb_lt in H3. left. auto.
    + apply Z.eqb_eq in Hin. right. exact Hin.
Qed.

(* with the index form of the usage clause *)
Corollary judge_stack_sound_nth : forall rec, judge_stack rec = 0 ->
  exists dbg evs,
    (d <- dbool ;; ev <- dlist dev ;; dend (d, ev)) rec = Some ((dbg, evs), []) /\
    let ops := map op_of evs in
    s_run dbg ops s_init = Some s_init /\
    pending ops [] = Some [] /\
    forall i e, nth_error evs i = Some e ->
      exists s', s_run dbg (firstn (S i) ops) s_init = Some s' /\ usage s' = snd e.
Proof.
  intros rec H. destruct (judge_stack_sound rec H) as [d [ev [D [_ [HR [HP HM]]]]]].
  exists d, ev. split; [exact D|]. cbv zeta. split; [exact HR|]. split; [exact HP|].
  apply usages_match_nth. exact HM.
Qed.

Print Assumptions Inv_init.
Print Assumptions alloc_Inv.
Print Assumptions free_Inv.
Print Assumptions alloc_total.
Print Assumptions alloc_free.
Print Assumptions usage_alloc.
Print Assumptions usage_zero_init.
Print Assumptions run_pending.
Print Assumptions balanced_restores.
Print Assumptions leak_detected.
Print Assumptions run_Inv.
Print Assumptions run_defined.
Print Assumptions run_pending_exists.
Print Assumptions judge_stack_sound.
Print Assumptions judge_stack_sound_nth.
