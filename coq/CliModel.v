(* CliModel.v — C20 / C14: what the command line tools must write, as functions of the *bytes* of their input files.
   cmr-matrix IN OUT [-i fmt] [-o fmt] [-S sub] [-t] [-c|-C]   and   cmr-graphic / cmr-network -c IN-GRAPH OUT-MAT [-t] [-o fmt].
   Input and output files are given to the judges as byte strings and parsed by the Coq grammars (TextModel, EdgeModel);
   the expected output is computed by the dense models (Base, MatModel, GraphModel).  No proofs here. *)
From Cmr Require Import Base Det TextModel MatModel EdgeModel GraphModel.
Local Open Scope Z_scope.

(* ---------- cmr-matrix ---------- *)

(* the matrix cmr-matrix must write: slice (if -S), then transpose (if -t), then support (-c) / signed support (-C) *)
Definition climat_expected (hasS : bool) (rs cs : list nat) (tr : bool) (task : Z) (x : nat * nat * mat)
  : option (nat * nat * mat) :=
  let '(m, n, M) := x in
  match (if hasS then (if all_lt m rs && all_lt n cs then Some (length rs, length cs, submat M rs cs) else None)
         else Some (m, n, M)) with
  | None => None
  | Some (m1, n1, M1) =>
    let '(m2, n2, M2) := if tr then (n1, m1, transpose m1 n1 M1) else (m1, n1, M1) in
    Some (m2, n2, if task =? 1 then support M2 else if task =? 2 then signed_support M2 else M2)
  end.

(* record: infmt outfmt tr task hasS nrs rs.. ncs cs.. nin inbytes.. rc hasout nout outbytes..
   0 accepted (incl. requests outside the model: a submatrix out of range);
   1 malformed record; 320 output written although the input text is malformed; 321 tool failed on a well-formed input;
   322 no output written; 323 output does not follow the documented format; 324 output denotes a different matrix *)
Definition judge_climat (rec : list Z) : Z :=
  match (infmt <- dZ ;; outfmt <- dZ ;; tr <- dbool ;; task <- dZ ;; hasS <- dbool ;; rs <- dlist dnat ;; cs <- dlist dnat ;;
         inb <- dlist dZ ;; rc <- dZ ;; hasout <- dbool ;; outb <- dlist dZ ;;
         dend (infmt, outfmt, tr, task, hasS, rs, cs, inb, rc, hasout, outb)) rec with
  | Some ((infmt, outfmt, tr, task, hasS, rs, cs, inb, rc, hasout, outb), _) =>
    match parse infmt 1 inb with
    | TErr => if hasout && negb (Nat.eqb (length outb) 0) then 320 else 0
    | TOk m n M =>
      match climat_expected hasS rs cs tr task (m, n, M) with
      | None => 0
      | Some (m2, n2, M2) =>
        if negb (rc =? 0) then 321
        else if negb hasout then 322
        else match parse outfmt 1 outb with
             | TErr => 323
             | TOk m' n' M' => if Nat.eqb m' m2 && Nat.eqb n' n2 && mat_eqb M' M2 then 0 else 324
             end
      end
    end
  | None => 1
  end.

(* ---------- cmr-graphic -c / cmr-network -c ---------- *)

Fixpoint positions_of (lab : Z) (i : nat) (es : list (nat * nat * Z)) : list nat :=
  match es with
  | [] => []
  | (_, _, e) :: r => if e =? lab then i :: positions_of lab (S i) r else positions_of lab (S i) r
  end.

(* the edges labeled sgn*1, sgn*2, ..., sgn*k in this order; None unless each label occurs exactly once *)
Fixpoint labeled (sgn : Z) (k : nat) (es : list (nat * nat * Z)) : option (list nat) :=
  match k with
  | O => Some []
  | S k' => match labeled sgn k' es, positions_of (sgn * Z.of_nat k) 0 es with
            | Some l, [p] => Some (l ++ [p])
            | _, _ => None
            end
  end.

Definition count_lab (neg : bool) (es : list (nat * nat * Z)) : nat :=
  length (filter (fun x : nat * nat * Z => if neg then snd x <? 0 else 0 <? snd x) es).

Fixpoint mk_gedges (i : nat) (es : list (nat * nat * Z)) : list edge :=
  match es with
  | [] => []
  | (u, v, _) :: r => {| e_id := i; e_u := u; e_v := v |} :: mk_gedges (S i) r
  end.

(* the graph, forest and coforest an edge-list file denotes for the tools: rows = edges labeled r1..rk, columns = edges
   labeled c1..cl; defined when each of these labels occurs exactly once and every edge is labeled (the library call
   behind the tools wants the complete coforest E \ T) *)
Definition edgelist_graph (bytes : list Z) : option (graph * list nat * list nat) :=
  match parse_edges [] (lines bytes) with
  | None => None
  | Some (names, es) =>
    match labeled (-1) (count_lab true es) es, labeled 1 (count_lab false es) es with
    | Some f, Some c =>
      if negb (Nat.eqb (count_lab true es + count_lab false es) (length es)) then None else
      Some ({| g_nodes := iota 0 (length names); g_edges := mk_gedges 0 es |}, f, c)
    | _, _ => None
    end
  end.

(* record: signed tr outfmt nin inbytes.. rc hasout nout outbytes..
   0 accepted (incl. files outside the model: labels not r1..rk / c1..cl once each, or the row edges are no spanning forest);
   1 malformed record; 331 tool failed; 332 no output; 333 output does not follow the matrix format;
   334 output is not the (transposed) representation matrix of the graph, forest and coforest the file denotes *)
Definition judge_cligraph (rec : list Z) : Z :=
  match (signed <- dbool ;; tr <- dbool ;; outfmt <- dZ ;; inb <- dlist dZ ;; rc <- dZ ;; hasout <- dbool ;; outb <- dlist dZ ;;
         dend (signed, tr, outfmt, inb, rc, hasout, outb)) rec with
  | Some ((signed, tr, outfmt, inb, rc, hasout, outb), _) =>
    match edgelist_graph inb with
    | None => 0
    | Some (G, f, c) =>
      if negb (is_spanning_forest G f) then 0
      else match lookup_all (g_edges G) f, lookup_all (g_edges G) c with
           | Some T, Some C =>
             let m := length T in let n := length C in
             let R := rep_matrix signed T C in
             let '(m2, n2, M2) := if tr then (n, m, transpose m n R) else (m, n, R) in
             if negb (rc =? 0) then 331
             else if negb hasout then 332
             else match parse outfmt 0 outb with
                  | TErr => 333
                  | TOk m' n' M' => if Nat.eqb m' m2 && Nat.eqb n' n2 && mat_eqb M' M2 then 0 else 334
                  end
           | _, _ => 0
           end
    end
  | None => 1
  end.

(* ---------- verdict lines of the recognition tools ---------- *)
From Coq Require Import String Ascii.
From Cmr Require Import SpModel TuModel CtuModel.

Definition zs (s : string) : list Z := map (fun a => Z.of_nat (nat_of_ascii a)) (list_ascii_of_string s).

Fixpoint is_prefix (p t : list Z) : bool :=
  match p, t with
  | [], _ => true
  | x :: p', y :: t' => (x =? y) && is_prefix p' t'
  | _ :: _, [] => false
  end.
Fixpoint contains (p t : list Z) : bool :=
  is_prefix p t || match t with [] => false | _ :: t' => contains p t' end.

(* tool, variant -> (property name in the verdict line, the definition-level oracle, domain of inputs the oracle speaks about)
   0 cmr-tu; 1 cmr-regular; 2 cmr-graphic (variant 1: -t, cographic); 4 cmr-series-parallel (variant 1: -b);
   5 cmr-balanced; 6 cmr-ctu; 8 cmr-k-ary (variant 0 -I integer, 1 -t ternary, 2 -b binary) *)
Definition verdict_spec (tool variant : Z) (m n : nat) (M : mat) : option (string * bool) :=
  let cells := (m * n)%nat in
  if tool =? 0 then (if Nat.leb cells 20 then Some ("totally unimodular"%string, tu_bf m n M) else None)
  else if tool =? 1 then (if Nat.leb cells 16 && is_binary M then Some ("regular"%string, regular_bf m n M) else None)
  else if tool =? 2 then
    (if negb (is_binary M) then None
     else if variant =? 0 then (if Nat.leb m 4 && Nat.leb n 6 then Some ("graphic"%string, graphic_bf m n M) else None)
     else (if Nat.leb n 4 && Nat.leb m 6 then Some ("cographic"%string, graphic_bf n m (transpose m n M)) else None))
  else if tool =? 4 then
    (if variant =? 0 then (if is_ternary M then Some ("series-parallel"%string, sp_greedy true m n M) else None)
     else (if is_binary M then Some ("series-parallel"%string, sp_greedy false m n M) else None))
  else if tool =? 5 then (if Nat.leb cells 20 && is_ternary M then Some ("balanced"%string, balanced_bf m n M) else None)
  else if tool =? 6 then (if Nat.leb cells 12 && is_binary M then Some ("complement totally unimodular"%string, ctu_bf m n M) else None)
  else if tool =? 8 then
    (if variant =? 0 then Some ("integer"%string, true) else if variant =? 1 then Some ("ternary"%string, is_ternary M)
     else Some ("binary"%string, is_binary M))
  else None.

(* record: tool variant infmt nin inbytes.. rc ntext text(stdout then stderr)..
   0 accepted (incl. inputs outside the oracle's domain); 1 malformed record; 350 tool failed on a well-formed matrix file;
   351 no verdict line or both a positive and a negative one; 352 the verdict contradicts the definition-level oracle;
   353 a verdict line although the input text is malformed *)
Definition judge_cliverdict (rec : list Z) : Z :=
  match (tool <- dZ ;; variant <- dZ ;; infmt <- dZ ;; inb <- dlist dZ ;; rc <- dZ ;; txt <- dlist dZ ;;
         dend (tool, variant, infmt, inb, rc, txt)) rec with
  | Some ((tool, variant, infmt, inb, rc, txt), _) =>
    match parse infmt 1 inb with
    | TErr => if contains (zs "Matrix IS "%string) txt then 353 else 0
    | TOk m n M =>
      match verdict_spec tool variant m n M with
      | None => 0
      | Some (name, expected) =>
        let yes := contains (zs "Matrix IS "%string ++ zs name) txt in
        let no := contains (zs "NOT "%string ++ zs name) txt in
        if negb (rc =? 0) then 350
        else if Bool.eqb yes no then 351
        else if Bool.eqb yes expected then 0 else 352
      end
    end
  | None => 1
  end.

(* ---------- cmr-matrix -d: double-valued input, support / signed support with tolerance 1e-9 ---------- *)
(* a decimal token [-+]?digits[.digits][(e|E)[-+]?digits] denotes mant * 10^ex exactly; its "sign beyond the tolerance" is
   0 if |value| <= 10^-9 and the sign of the value otherwise (CMRdblmatSupport / SignedSupport with epsilon 1e-9; the
   generators stay away from values whose distance to 1e-9 is below double precision) *)
Fixpoint split_at (c1 c2 : Z) (l : list Z) : list Z * option (list Z) :=
  match l with
  | [] => ([], None)
  | x :: r => if (x =? c1) || (x =? c2) then ([], Some r)
              else let '(a, b) := split_at c1 c2 r in (x :: a, b)
  end.

Definition parse_signed_digits (l : list Z) : option Z :=
  match l with
  | 45 :: ds => if all_digits ds then Some (- digits_val 0 ds) else None
  | 43 :: ds => if all_digits ds then Some (digits_val 0 ds) else None
  | _ => if all_digits l then Some (digits_val 0 l) else None
  end.

(* Some (mant, ex) with value = mant * 10^ex *)
Definition parse_decimal (tok : list Z) : option (Z * Z) :=
  let '(mantpart, expart) := split_at 101 69 tok in          (* e E *)
  let '(neg, body) := match mantpart with 45 :: r => (true, r) | 43 :: r => (false, r) | _ => (false, mantpart) end in
  let '(ip, fp) := split_at 46 46 body in                     (* . *)
  let fpd := match fp with Some f => f | None => [] end in
  if negb (forallb is_digit ip && forallb is_digit fpd) || Nat.eqb (List.length ip + List.length fpd) 0 then None
  else
    let mant := digits_val 0 (List.app ip fpd) in
    match (match expart with None => Some 0 | Some e => parse_signed_digits e end) with
    | None => None
    | Some ex => Some ((if neg then - mant else mant), ex - Z.of_nat (List.length fpd))
    end.

(* sign of mant*10^ex if |mant*10^ex| > 10^-9, else 0 *)
Definition tol_sign (d : Z * Z) : Z :=
  let '(mant, ex) := d in
  let a := Z.abs mant in
  let big := if 0 <=? ex + 9 then 1 <? a * 10 ^ (ex + 9) else 10 ^ (- (ex + 9)) <? a in
  if big then (if mant <? 0 then -1 else 1) else 0.

Fixpoint take_decs (k : nat) (toks : list (list Z)) : option (list Z * list (list Z)) :=
  match k with
  | O => Some ([], toks)
  | S k' => match toks with
            | t :: r => match parse_decimal t, take_decs k' r with
                        | Some d, Some (vs, rest) => Some (tol_sign d :: vs, rest)
                        | _, _ => None
                        end
            | [] => None
            end
  end.

(* the matrix of tolerance signs a double-valued dense / sparse file denotes *)
Definition parse_dbl_signs (fmt : Z) (bytes : list Z) : tres :=
  if fmt =? 0 then
    match take_ints 2 (tokens bytes) with
    | Some ([m; n], rest) =>
      if size_ok m && size_ok n then
        let mm := Z.to_nat m in let nn := Z.to_nat n in
        match take_decs (mm * nn) rest with
        | Some (vs, _) => TOk mm nn (chunk nn mm vs)
        | None => TErr
        end
      else TErr
    | _ => TErr
    end
  else
    match take_ints 3 (tokens bytes) with
    | Some ([m; n; k], rest) =>
      if size_ok m && size_ok n && size_ok k then
        let fix trip (c : nat) (toks : list (list Z)) : option (list (Z * Z * Z)) :=
          match c with
          | O => Some []
          | S c' => match toks with
                    | tr :: tc :: tv :: r =>
                      match parse_int tr, parse_int tc, parse_decimal tv, trip c' r with
                      | Some i, Some j, Some d, Some l => Some ((i, j, tol_sign d) :: l)
                      | _, _, _, _ => None
                      end
                    | _ => None
                    end
          end in
        match trip (Z.to_nat k) rest with
        | Some l =>
          if forallb (fun t => (1 <=? fst (fst t)) && (fst (fst t) <=? m) && (1 <=? snd (fst t)) && (snd (fst t) <=? n)) l
             && negb (dup_pos l)
          then TOk (Z.to_nat m) (Z.to_nat n) (mk_mat (Z.to_nat m) (Z.to_nat n) (entry_of l))
          else TErr
        | None => TErr
        end
      else TErr
    | _ => TErr
    end.

(* record layout of judge_climat; the tool is run with -d and only -c / -C requests are judged (a plain copy prints
   doubles, which are not compared) *)
Definition judge_climatd (rec : list Z) : Z :=
  match (infmt <- dZ ;; outfmt <- dZ ;; tr <- dbool ;; task <- dZ ;; hasS <- dbool ;; rs <- dlist dnat ;; cs <- dlist dnat ;;
         inb <- dlist dZ ;; rc <- dZ ;; hasout <- dbool ;; outb <- dlist dZ ;;
         dend (infmt, outfmt, tr, task, hasS, rs, cs, inb, rc, hasout, outb)) rec with
  | Some ((infmt, outfmt, tr, task, hasS, rs, cs, inb, rc, hasout, outb), _) =>
    if negb ((task =? 1) || (task =? 2)) then 0 else
    match parse_dbl_signs infmt inb with
    | TErr => 0
    | TOk m n Sg =>
      match climat_expected hasS rs cs tr task (m, n, Sg) with
      | None => 0
      | Some (m2, n2, M2) =>
        if negb (rc =? 0) then 321
        else if negb hasout then 322
        else match parse outfmt 1 outb with
             | TErr => 323
             | TOk m' n' M' => if Nat.eqb m' m2 && Nat.eqb n' n2 && mat_eqb M' M2 then 0 else 324
             end
      end
    end
  | None => 1
  end.

(* ---------- cmr-graphic / cmr-network  IN-MAT [-t] -G OUT-GRAPH: the written graph is a certificate ---------- *)
(* record: signed co infmt nin inbytes.. rc hasout nout outbytes..
   the output is an edge list with the row / column labels of the matrix; for co = 0 the row edges must form a spanning
   forest T and the matrix must be the representation matrix of (T, column edges); for co = 1 (-t: cographic / conetwork)
   the same holds for the transpose with the roles of rows and columns exchanged.
   0 accepted; 1 malformed record; 360 tool failed; 361 graph file unreadable or labels not r1..rm, c1..cn once each;
   362 wrong number of row / column edges; 363 tree edges are no spanning forest; 364 the graph does not represent the
   matrix; 365 no graph written although the matrix is (co)graphic by the brute-force oracle (small matrices only) *)
Definition judge_cligraphout (rec : list Z) : Z :=
  match (signed <- dbool ;; co <- dbool ;; infmt <- dZ ;; inb <- dlist dZ ;; rc <- dZ ;; hasout <- dbool ;; outb <- dlist dZ ;;
         dend (signed, co, infmt, inb, rc, hasout, outb)) rec with
  | Some ((signed, co, infmt, inb, rc, hasout, outb), _) =>
    match parse infmt 1 inb with
    | TErr => 0
    | TOk m n M =>
      if negb (if signed then is_ternary M else is_binary M) then 0
      else if negb (rc =? 0) then 360
      else if negb hasout then
        (if negb signed && Nat.leb (if co then n else m) 4 && Nat.leb (if co then m else n) 6 &&
            (if co then graphic_bf n m (transpose m n M) else graphic_bf m n M) then 365 else 0)
      else
        match edgelist_graph outb with
        | None => 361
        | Some (G, rowedges, coledges) =>
          if negb (Nat.eqb (List.length rowedges) m && Nat.eqb (List.length coledges) n) then 362
          else
            let '(f, c, mm, nn, MM) := if co then (coledges, rowedges, n, m, transpose m n M) else (rowedges, coledges, m, n, M) in
            if negb (is_spanning_forest G f) then 363
            else match lookup_all (g_edges G) f, lookup_all (g_edges G) c with
                 | Some T, Some C => if mat_eqb (rep_matrix signed T C) MM then 0 else 364
                 | _, _ => 361
                 end
        end
    end
  | None => 1
  end.

(* ---------- submatrix files written by the tools (-N NON-SUB, -R OUT-REDUCED) ---------- *)
(* format (doc/file-formats.md): m n r c, then r row indices, then c column indices, indices from 1 *)
Definition parse_submat_file (bytes : list Z) : option (nat * nat * list nat * list nat) :=
  match take_ints 4 (tokens bytes) with
  | Some ([m; n; r; c], rest) =>
    if size_ok m && size_ok n && size_ok r && size_ok c then
      match take_ints (Z.to_nat r) rest with
      | Some (rs, rest2) =>
        match take_ints (Z.to_nat c) rest2 with
        | Some (cs, []) =>
          if forallb (fun x => (1 <=? x) && (x <=? m)) rs && forallb (fun x => (1 <=? x) && (x <=? n)) cs
          then Some (Z.to_nat m, Z.to_nat n, map (fun x => Z.to_nat (x - 1)) rs, map (fun x => Z.to_nat (x - 1)) cs)
          else None
        | _ => None
        end
      | None => None
      end
    else None
  | _ => None
  end.

(* record: tool variant infmt nin inbytes.. rc hasout nout outbytes..
   tool 0: cmr-tu -N (variants as in VERDICT_TOOLS; variant 2 = partition algorithm, which writes none: known finding);
   tool 4: cmr-series-parallel -N (variant 1: -b); tool 5: cmr-balanced -N; tool 14: cmr-series-parallel -R (reduced submatrix)
   0 accepted; 1 malformed record; 370 tool failed; 371 file unreadable / not a submatrix of the input's size;
   372 the written submatrix is not a violator of the required kind; 373 no file written although the matrix does not have
   the property (by the oracle); 374 a violator written although the matrix has the property; 375 the reduced submatrix
   admits a further reduction or is not reachable (tool 14) *)
Definition judge_clisub (rec : list Z) : Z :=
  match (tool <- dZ ;; variant <- dZ ;; infmt <- dZ ;; inb <- dlist dZ ;; rc <- dZ ;; hasout <- dbool ;; outb <- dlist dZ ;;
         dend (tool, variant, infmt, inb, rc, hasout, outb)) rec with
  | Some ((tool, variant, infmt, inb, rc, hasout, outb), _) =>
    match parse infmt 1 inb with
    | TErr => 0
    | TOk m n M =>
      let vtool := if tool =? 14 then 4 else tool in
      match verdict_spec vtool variant m n M with
      | None => 0
      | Some (_, has_property) =>
        if negb (rc =? 0) then 370
        else if negb hasout then (if has_property || (tool =? 14) then 0 else 373)
        else match parse_submat_file outb with
             | None => 371
             | Some (m', n', rs, cs) =>
               if negb (Nat.eqb m' m && Nat.eqb n' n) then 371
               else if tool =? 14 then
                 (* the reduced submatrix: a submatrix (increasing index lists) that admits no SP reduction, and it is
                    empty iff the matrix is series-parallel *)
                 (let t := (variant =? 0) in
                  let R := submat M rs cs in
                  if negb (strictly_increasing rs && strictly_increasing cs) then 375
                  else if negb (Bool.eqb (Nat.eqb (List.length rs + List.length cs) 0) has_property) then 375
                  else if negb (irreducible t R (all_true (List.length rs)) (all_true (List.length cs))) then 375 else 0)
               else if has_property then 374
               else if tool =? 0 then (if check_min_violator m n M rs cs then 0 else 372)
               else if tool =? 4 then (if check_sp_violator (variant =? 0) m n M rs cs then 0 else 372)
               else if tool =? 5 then (if check_unbalanced m n M rs cs then 0 else 372)
               else 0
             end
      end
    end
  | None => 1
  end.

(* ---------- cmr-ctu: (2) complement operations -r / -c, (1) -N: a complemented matrix that is not TU ---------- *)
Definition opt_of (x : Z) : option nat := if x <? 0 then None else Some (Z.to_nat x).
Definition all_opts (k : nat) : list (option nat) := None :: map Some (iota 0 k).

(* record: mode r c infmt outfmt nin inbytes.. rc hasout nout outbytes..      (r, c: index from 0, -1 = none)
   mode 2: cmr-ctu IN OUT -r R -c C must write the complement of doc/ctu (row operation, then column operation);
   mode 1: cmr-ctu IN -N OUT: for a matrix that is not complement TU the file must hold one of its complements and that
           complement must not be TU; for a complement TU matrix nothing is written.
   0 accepted (incl. non-binary input and matrices too large for the oracle); 1 malformed record; 380 tool failed;
   381 no output; 382 output unreadable; 383 output is not the requested complement; 384 output is not a non-TU complement
   of the input; 385 a matrix was written although the input is complement TU *)
Definition judge_clictu (rec : list Z) : Z :=
  match (mode <- dZ ;; r <- dZ ;; c <- dZ ;; infmt <- dZ ;; outfmt <- dZ ;; inb <- dlist dZ ;; rc <- dZ ;; hasout <- dbool ;;
         outb <- dlist dZ ;; dend (mode, r, c, infmt, outfmt, inb, rc, hasout, outb)) rec with
  | Some ((mode, r, c, infmt, outfmt, inb, rc, hasout, outb), _) =>
    match parse infmt 0 inb with
    | TErr => 0
    | TOk m n M =>
      if negb (is_binary M) then 0
      else if mode =? 2 then
        (if negb (opt_lt (opt_of r) m && opt_lt (opt_of c) n) || ((r <? 0) && (c <? 0)) then 0
         else if negb (rc =? 0) then 380
         else if negb hasout then 381
         else match parse outfmt 0 outb with
              | TErr => 382
              | TOk m' n' M' =>
                if Nat.eqb m' m && Nat.eqb n' n && mat_eqb M' (complement_spec m n M (opt_of r) (opt_of c)) then 0 else 383
              end)
      else if negb (Nat.leb (m * n) 12) then 0
      else if negb (rc =? 0) then 380
      else if ctu_bf m n M then (if hasout && negb (Nat.eqb (List.length outb) 0) then 385 else 0)
      else if negb hasout then 381
      else match parse outfmt 0 outb with
           | TErr => 382
           | TOk m' n' M' =>
             if Nat.eqb m' m && Nat.eqb n' n &&
                existsb (fun ro => existsb (fun co => mat_eqb M' (complement_spec m n M ro co)) (all_opts n)) (all_opts m) &&
                negb (tu_bf m n M')
             then 0 else 384
           end
    end
  | None => 1
  end.
