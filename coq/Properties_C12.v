From Cmr Require Import Base Det KsumModel.
Theorem placeholder_C12 : True. Proof. exact I. Qed.
