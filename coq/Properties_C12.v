(* Properties_C12.v — C12: k-sum decomposition and composition are mutually inverse (model level: block formulas)
   and what acceptance by the judges means.  Proofs in KsumProofs.v. *)
From Cmr Require Import Base Det BaseProofs PivotModel PivotProofs KsumModel KsumProofs.
Local Open Scope Z_scope.

(* The composition model IS the documented block formula: a Delta-sum that is accepted has operands of the
   documented shape [A a a; c^T 0 eps], [eps 0 b^T; d d D] with equal eps, and its result is [A a b^T; d c^T D]
   (entries reduced to the canonical residues of the characteristic), for operands of every size and with the
   special lines at arbitrary positions. *)
Theorem C12_deltasum_is_block_formula : forall p m1 n1 M1 m2 n2 M2 r1 c1a c1b r2 c2a c2b M,
  deltasum p m1 n1 M1 m2 n2 M2 r1 c1a c1b r2 c2a c2b = KOk M ->
  let R1 := keep_idx m1 [r1] in let C1 := keep_idx n1 [c1a; c1b] in
  let R2 := keep_idx m2 [r2] in let C2 := keep_idx n2 [c2a; c2b] in
  ((r1 < m1)%nat /\ (c1a < n1)%nat /\ (c1b < n1)%nat /\ c1a <> c1b /\
   (r2 < m2)%nat /\ (c2a < n2)%nat /\ (c2b < n2)%nat /\ c2a <> c2b) /\
  (length R1 = (m1 - 1)%nat /\ length C1 = (n1 - 2)%nat /\
   length R2 = (m2 - 1)%nat /\ length C2 = (n2 - 2)%nat) /\
  ((forall i, In i R1 -> get M1 i c1a = get M1 i c1b) /\
   get M1 r1 c1a = 0 /\ get M1 r1 c1b <> 0 /\ get M1 r1 c1b = get M2 r2 c2a /\
   (forall i, In i R2 -> get M2 i c2a = get M2 i c2b) /\
   get M2 r2 c2b = 0) /\
  sum_blocks M M1 M2 R1 C1 R2 C2
    (fun i j => modulo_ternary (get M1 (nth i R1 O) c1a * get M2 r2 (nth j C2 O)) p)
    (fun i j => modulo_ternary (get M2 (nth i R2 O) c2a * get M1 r1 (nth j C1 O)) p).
Proof. exact deltasum_spec. Qed.
Print Assumptions C12_deltasum_is_block_formula.

(* shape of an accepted k-sum call: only the four documented kinds with special-line lists of the documented lengths *)
Theorem C12_documented_shapes : forall kind p m1 n1 M1 m2 n2 M2 fsr fsc ssr ssc M,
  ksum kind p m1 n1 M1 m2 n2 M2 fsr fsc ssr ssc = KOk M ->
  (kind = 2 /\ ((length fsr, length fsc, length ssr, length ssc) = (1, 0, 0, 1)%nat \/
                (length fsr, length fsc, length ssr, length ssc) = (0, 1, 1, 0)%nat)) \/
  (kind = 3 /\ (length fsr, length fsc, length ssr, length ssc) = (1, 2, 1, 2)%nat) \/
  (kind = 4 /\ (length fsr, length fsc, length ssr, length ssc) = (2, 1, 2, 1)%nat) \/
  (kind = 5 /\ (length fsr, length fsc, length ssr, length ssc) = (2, 3, 3, 2)%nat).
Proof. exact ksum_ok_lengths. Qed.
Print Assumptions C12_documented_shapes.

(* composition judge: an accepted record means the library returned exactly the block-formula matrix when the
   operands have the documented shape and an error when they do not; sums of TU components are TU where the oracle
   applies (characteristic 3, up to 7x7) *)
Theorem C12_compose_judge_sound :
  forall rec kind p m1 n1 M1 m2 n2 M2 fsr fsc ssr ssc rc res rest,
  kcompose_input rec = Some ((kind, p, (m1, n1, M1), (m2, n2, M2), fsr, fsc, ssr, ssc, rc, res), rest) ->
  ((p =? 2) || (p =? 3)) && in_dom p M1 && in_dom p M2 = true ->
  judge_kcompose rec = 0 ->
  (forall M, ksum kind p m1 n1 M1 m2 n2 M2 fsr fsc ssr ssc = KOk M ->
     rc = 0 /\ exists m n, res = Some (m, n, M) /\
       ((p =? 3) && small m n && small m1 n1 && small m2 n2 &&
        tu_bf m1 n1 M1 && tu_bf m2 n2 M2 = true -> tu_bf m n M = true)) /\
  (ksum kind p m1 n1 M1 m2 n2 M2 fsr fsc ssr ssc = KErr -> rc <> 0).
Proof. exact judge_kcompose_sound. Qed.
Print Assumptions C12_compose_judge_sound.

(* round trip: an accepted decomposition record means the two returned components have the documented shape, the
   block formula applied to them with the returned special lines gives a matrix Mc whose lines correspond bijectively
   (returned origin maps) to the lines of the input M with Mc = M under these maps, and the library's own compose
   returns the same Mc; components of a TU matrix are TU where the oracle applies *)
Theorem C12_roundtrip_judge_sound :
  forall rec kind p m n M both rc1 X1 ro1 co1 fsr fsc rc2 X2 ro2 co2 ssr ssc rcc res rest,
  kdecomp_input rec =
    Some ((kind, p, (m, n, M), 1, both, (rc1, X1, ro1, co1, fsr, fsc), (rc2, X2, ro2, co2, ssr, ssc), rcc, res), rest) ->
  ((p =? 2) || (p =? 3)) && in_dom p M = true ->
  judge_kdecomp rec = 0 ->
  rc1 = 0 /\ rc2 = 0 /\ rcc = 0 /\
  exists m1 n1 M1 m2 n2 M2 Mc,
    X1 = Some (m1, n1, M1) /\ X2 = Some (m2, n2, M2) /\
    ksum kind p m1 n1 M1 m2 n2 M2 fsr fsc ssr ssc = KOk Mc /\
    let orow := kd_orow kind m1 m2 ro1 ro2 fsr ssr in
    let ocol := kd_ocol kind n1 n2 co1 co2 fsc ssc in
    is_perm_of m orow = true /\ is_perm_of n ocol = true /\
    Mc = submat M (map Z.to_nat orow) (map Z.to_nat ocol) /\
    (exists mr nr, res = Some (mr, nr, Mc)) /\
    (kd_tu_applies kind p both m1 n1 m2 n2 fsr fsc ssr ssc && small m n && tu_bf m n M = true ->
     tu_bf m1 n1 M1 = true /\ tu_bf m2 n2 M2 = true).
Proof. exact judge_kdecomp_sound. Qed.
Print Assumptions C12_roundtrip_judge_sound.

(* ---------- 2-sums and total unimodularity (TuTwoSum.v, MathComp; proof by pivoting a glued matrix) ---------- *)
From Cmr Require TuTwoSum.
From mathcomp Require ssrnat.

(* the 2-sum (model of CMRtwosumCompose, characteristic 3) of two TU matrices is TU — both variants *)
Theorem C12_twosum_preserves_TU_row_col : forall m1 n1 M1 m2 n2 M2 r1 c2 M,
  twosum 3 m1 n1 M1 m2 n2 M2 (Some r1) None None (Some c2) = KOk M ->
  tu_bf m1 n1 M1 = true -> tu_bf m2 n2 M2 = true -> tu_bf (m1 - 1 + m2) (n1 + (n2 - 1)) M = true.
Proof. exact TuTwoSum.tu_bf_twosum_row_col. Qed.
Print Assumptions C12_twosum_preserves_TU_row_col.

Theorem C12_twosum_preserves_TU_col_row : forall m1 n1 M1 m2 n2 M2 c1 r2 M,
  twosum 3 m1 n1 M1 m2 n2 M2 None (Some c1) (Some r2) None = KOk M ->
  tu_bf m1 n1 M1 = true -> tu_bf m2 n2 M2 = true -> tu_bf (m1 + (m2 - 1)) (n1 - 1 + n2) M = true.
Proof. exact TuTwoSum.tu_bf_twosum_col_row. Qed.
Print Assumptions C12_twosum_preserves_TU_col_row.

(* conversely the components of a TU 2-sum with nonzero connecting lines are TU: this is the heredity the round-trip
   judge demands of CMRtwosumDecompose (code 156) *)
Theorem C12_twosum_components_TU : forall m1 n1 M1 m2 n2 M2 r1 c2 M,
  twosum 3 m1 n1 M1 m2 n2 M2 (Some r1) None None (Some c2) = KOk M ->
  is_ternary M1 = true -> is_ternary M2 = true ->
  (exists j, is_true (ssrnat.leq (S j) n1) /\ get M1 r1 j <> 0) ->
  (exists i, is_true (ssrnat.leq (S i) m2) /\ get M2 i c2 <> 0) ->
  tu_bf (m1 - 1 + m2) (n1 + (n2 - 1)) M = true -> tu_bf m1 n1 M1 = true /\ tu_bf m2 n2 M2 = true.
Proof. exact TuTwoSum.tu_bf_twosum_row_col_conv. Qed.
Print Assumptions C12_twosum_components_TU.

(* ---------- the judge accepts EXACTLY the records that satisfy its specification: besides soundness (above) also completeness,
   i.e. a record of a correct answer is never rejected (JudgeComplete2.v) ---------- *)
From Cmr Require JudgeComplete2.
Theorem C12_judge_kcompose_accepts_exactly_the_specification :
    forall (rec : list Z) (kind p : Z) (m1 n1 : nat) (M1 : mat) (m2 n2 : nat) 
    (M2 : mat) (fsr fsc ssr ssc : list nat) (rc : Z) (res : option (nat * nat * mat)) 
    (rest : list Z),
    KsumProofs.kcompose_input rec =
    Some (kind, p, (m1, n1, M1), (m2, n2, M2), fsr, fsc, ssr, ssc, rc, res, rest) ->
    KsumModel.judge_kcompose rec = 0%Z <->
    JudgeComplete2.kcompose_spec kind p m1 n1 M1 m2 n2 M2 fsr fsc ssr ssc rc res.
Proof. exact JudgeComplete2.judge_kcompose_iff. Qed.
Print Assumptions C12_judge_kcompose_accepts_exactly_the_specification.
Theorem C12_judge_kdecomp_accepts_exactly_the_specification :
    forall (rec : list Z) (kind p : Z) (m n : nat) (M : mat) (ok : Z) (both : bool) 
    (rc1 : Z) (X1 : option (nat * nat * mat)) (ro1 co1 : list Z) (fsr fsc : list nat) 
    (rc2 : Z) (X2 : option (nat * nat * mat)) (ro2 co2 : list Z) (ssr ssc : list nat) 
    (rcc : Z) (res : option (nat * nat * mat)) (rest : list Z),
    KsumProofs.kdecomp_input rec =
    Some
    (kind, p, (m, n, M), ok, both, (rc1, X1, ro1, co1, fsr, fsc), (rc2, X2, ro2, co2, ssr, ssc), rcc,
    res, rest) ->
    KsumModel.judge_kdecomp rec = 0%Z <->
    JudgeComplete2.kdecomp_spec kind p m n M ok both rc1 X1 ro1 co1 fsr fsc rc2 X2 ro2 co2 ssr ssc rcc res.
Proof. exact JudgeComplete2.judge_kdecomp_iff. Qed.
Print Assumptions C12_judge_kdecomp_accepts_exactly_the_specification.

(* ---------- the Y-sum is the transposed Delta-sum of the transposed operands (KsumTranspose.v): the two compositions of the model are
   one construction, and total unimodularity of one result is that of the other ---------- *)
From Cmr Require KsumTranspose.
Theorem C12_ysum_is_the_transposed_deltasum : forall p m1 n1 M1 m2 n2 M2 r1a r1b c1 r2a r2b c2,
  wf_mat m1 n1 M1 = true -> wf_mat m2 n2 M2 = true ->
  match deltasum p n1 m1 (transpose m1 n1 M1) n2 m2 (transpose m2 n2 M2) c1 r1a r1b c2 r2a r2b with
  | KOk X => ysum p m1 n1 M1 m2 n2 M2 r1a r1b c1 r2a r2b c2 =
             KOk (transpose (n1 - 1 + (n2 - 1)) (m1 - 2 + (m2 - 2)) X)
  | KErr => ysum p m1 n1 M1 m2 n2 M2 r1a r1b c1 r2a r2b c2 = KErr
  end.
Proof. exact KsumTranspose.ysum_is_transposed_deltasum. Qed.
Print Assumptions C12_ysum_is_the_transposed_deltasum.

Theorem C12_ysum_TU_iff_deltasum_TU : forall p m1 n1 M1 m2 n2 M2 r1a r1b c1 r2a r2b c2 M X,
  wf_mat m1 n1 M1 = true -> wf_mat m2 n2 M2 = true ->
  ysum p m1 n1 M1 m2 n2 M2 r1a r1b c1 r2a r2b c2 = KOk M ->
  deltasum p n1 m1 (transpose m1 n1 M1) n2 m2 (transpose m2 n2 M2) c1 r1a r1b c2 r2a r2b = KOk X ->
  tu_bf (m1 - 2 + (m2 - 2)) (n1 - 1 + (n2 - 1)) M = tu_bf (n1 - 1 + (n2 - 1)) (m1 - 2 + (m2 - 2)) X.
Proof. exact KsumTranspose.ysum_tu_bf_deltasum. Qed.
Print Assumptions C12_ysum_TU_iff_deltasum_TU.
