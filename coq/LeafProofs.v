(* LeafProofs.v — specifications of the generated leaf functions of LeafGen.v (C semantics: LeafSem.v). *)
From Coq Require Import ZArith Bool Lia.
From Cmr Require Import Base PivotModel LeafSem LeafGen.
Local Open Scope Z_scope.
Ltac Zify.zify_post_hook ::= Z.to_euclidean_division_equations.

Definition in_ty (t : cty) (x : Z) : Prop :=
  match t with
  | I32 => -2147483648 <= x <= 2147483647
  | I64 => -9223372036854775808 <= x <= 9223372036854775807
  | U64 => 0 <= x < 18446744073709551616
  | CB => x = 0 \/ x = 1
  end.
Definition int32 (x : Z) : Prop := -2147483648 <= x <= 2147483647.
Definition int64 (x : Z) : Prop := -9223372036854775808 <= x <= 9223372036854775807.

Lemma wrap_ok t x : in_ty t x -> wrap t x = Some x.
Proof.
  destruct t; unfold in_ty, wrap; intros H.
  - destruct (Z.leb_spec (-2147483648) x), (Z.leb_spec x 2147483647); try lia; reflexivity.
  - destruct (Z.leb_spec (-9223372036854775808) x), (Z.leb_spec x 9223372036854775807); try lia; reflexivity.
  - rewrite Z.mod_small by lia. reflexivity.
  - destruct H as [-> | ->]; reflexivity.
Qed.

Lemma c_true_bool (b : bool) : c_true (if b then 1 else 0) = b.
Proof. destruct b; reflexivity. Qed.
Lemma c_true_1 : c_true 1 = true. Proof. reflexivity. Qed.
Lemma c_true_0 : c_true 0 = false. Proof. reflexivity. Qed.

Ltac unf := cbv [c_cast c_add c_sub c_mul c_neg c_div c_rem c_bool].
Ltac red1 := repeat (progress (cbn [obind andb negb]; rewrite ?c_true_bool, ?c_true_1, ?c_true_0)).
Ltac wrap_step :=
  match goal with
  | |- context [wrap ?t ?e] => rewrite (wrap_ok t e) by (cbv [in_ty]; lia)
  end.
Ltac split_if :=
  match goal with
  | |- context [if ?a =? ?b then _ else _] => destruct (Z.eqb_spec a b)
  | |- context [if ?a <? ?b then _ else _] => destruct (Z.ltb_spec a b)
  | |- context [if ?a <=? ?b then _ else _] => destruct (Z.leb_spec a b)
  end.
Ltac split_b :=
  match goal with
  | |- context [?a =? ?b] => destruct (Z.eqb_spec a b)
  | |- context [?a <? ?b] => destruct (Z.ltb_spec a b)
  end.
Ltac fin :=
  repeat (red1; first [wrap_step | split_if | split_b]); red1; cbn [andb negb];
  try reflexivity; try lia; try (f_equal; lia).

(* ------------------------------------------------------------------------------------------------ *)
(* 1, 2.  moduloTernary / moduloNonnegative (src/cmr/linear_algebra_internal.h)                      *)

(* after both branches of `if (q < 0) q = -q;` the code continues with a divisor a = |q| > 0 *)
Lemma rem_bounds p a : 0 < a -> - a < Z.rem p a < a.
Proof. intros Ha. pose proof (Z.rem_bound_abs p a ltac:(lia)). lia. Qed.

Lemma quot_in_i32 p a : int32 p -> 0 < a -> in_ty I32 (Z.quot p a).
Proof.
  unfold int32; intros Hp Ha. cbv [in_ty].
  pose proof (Z.quot_le_upper_bound p a 2147483647).
  pose proof (Z.quot_le_lower_bound p a (-2147483648)). nia.
Qed.

(* common part: divisor already made positive; quotient and remainder abstracted BEFORE the case splits *)
Ltac modulo_tail p a Hp :=
  let Hr := fresh "Hr" in let Hquot := fresh "Hquot" in let r := fresh "r" in
  pose proof (rem_bounds p a ltac:(lia)) as Hr;
  pose proof (quot_in_i32 p a Hp ltac:(lia)) as Hquot;
  rewrite (wrap_ok I32 (Z.quot p a) Hquot); red1;
  revert Hr; generalize (Z.rem p a) as r; intros r Hr; clear Hquot;
  fin.

Theorem c_moduloTernary_spec : forall p q, int32 p -> int32 q -> q <> -2147483648 ->
  c_moduloTernary p q = Some (modulo_ternary p q).
Proof.
  intros p q Hp Hq Hm. pose proof Hp as Hp'. unfold int32 in Hp', Hq.
  unfold c_moduloTernary, modulo_ternary. unf. red1.
  destruct (Z.eqb_spec q 0) as [->|Hq0]; red1; [wrap_step; reflexivity|].
  destruct (Z.ltb_spec q 0) as [Hneg|Hpos]; red1.
  - wrap_step; red1. replace (Z.abs q) with (- q) by lia.
    destruct (Z.eqb_spec (- q) 0); [lia|].
    assert (Hq' : 0 < - q <= 2147483647) by lia. revert Hq'. generalize (- q) as a. intros a Ha.
    modulo_tail p a Hp.
  - replace (Z.abs q) with q by lia.
    destruct (Z.eqb_spec q 0); [lia|].
    assert (Hq' : 0 < q <= 2147483647) by lia.
    modulo_tail p q Hp.
Qed.

Theorem c_moduloTernary_ub : forall p, int32 p -> c_moduloTernary p (-2147483648) = None.
Proof. intros p _. reflexivity. Qed.

Theorem c_moduloNonnegative_spec : forall p q, int32 p -> int32 q -> q <> -2147483648 ->
  c_moduloNonnegative p q = Some (modulo_nonneg p q).
Proof.
  intros p q Hp Hq Hm. pose proof Hp as Hp'. unfold int32 in Hp', Hq.
  unfold c_moduloNonnegative, modulo_nonneg. unf. red1.
  destruct (Z.eqb_spec q 0) as [->|Hq0]; red1; [wrap_step; reflexivity|].
  destruct (Z.ltb_spec q 0) as [Hneg|Hpos]; red1.
  - wrap_step; red1. replace (Z.abs q) with (- q) by lia.
    destruct (Z.eqb_spec (- q) 0); [lia|].
    assert (Hq' : 0 < - q <= 2147483647) by lia. revert Hq'. generalize (- q) as a. intros a Ha.
    modulo_tail p a Hp.
  - replace (Z.abs q) with q by lia.
    destruct (Z.eqb_spec q 0); [lia|].
    assert (Hq' : 0 < q <= 2147483647) by lia.
    modulo_tail p q Hp.
Qed.

Theorem c_moduloNonnegative_ub : forall p, int32 p -> c_moduloNonnegative p (-2147483648) = None.
Proof. intros p _. reflexivity. Qed.

(* ------------------------------------------------------------------------------------------------ *)
(* 3.  projectSignedHash (src/cmr/hashtable.h)                                                      *)

Definition HR : Z := 9223372036854775807 / 8.          (* RANGE_SIGNED_HASH *)
Lemma HR_val : HR = 1152921504606846975. Proof. reflexivity. Qed.

(* no signed overflow in `value + RANGE_SIGNED_HASH - 1` *)
Definition psh_pre (v : Z) : Prop := -9223372036854775808 <= v <= 9223372036854775807 - HR.

Ltac ceval :=
  match goal with
  | |- context [?a =? ?b] =>
      let v := eval vm_compute in (a =? b) in
      lazymatch v with
      | true => change (a =? b) with true
      | false => change (a =? b) with false
      end
  end.
Ltac psh_norm := first
  [ progress change (9223372036854775807 ÷ 8) with 1152921504606846975
  | progress change (2 * 1152921504606846975) with 2305843009213693950
  | progress change (2305843009213693950 - 1) with 2305843009213693949
  | progress change (1152921504606846975 - 1) with 1152921504606846974 ].

(* closed form: shift into [0, 2*HR-1), reduce, shift back *)
Lemma c_projectSignedHash_eq : forall v, psh_pre v ->
  c_projectSignedHash v = Some ((v + HR - 1) mod (2 * HR - 1) - (HR - 1)).
Proof.
  intros v Hv. unfold psh_pre in Hv. rewrite HR_val in *.
  unfold c_projectSignedHash. unf.
  repeat (red1; first [psh_norm | ceval | wrap_step]).
  fin.
Qed.

Theorem c_projectSignedHash_spec : forall v,
  -9223372036854775808 <= v <= 9223372036854775807 - HR ->
  exists r, c_projectSignedHash v = Some r /\ - (HR - 1) <= r <= HR - 1 /\ (r - v) mod (2 * HR - 1) = 0.
Proof.
  intros v Hv. eexists; split; [apply c_projectSignedHash_eq; exact Hv|].
  rewrite HR_val. change (2 * 1152921504606846975 - 1) with 2305843009213693949. lia.
Qed.

Theorem c_projectSignedHash_canonical : forall v w r s, psh_pre v -> psh_pre w ->
  c_projectSignedHash v = Some r -> c_projectSignedHash w = Some s ->
  (v - w) mod (2 * HR - 1) = 0 -> r = s.
Proof.
  intros v w r s Hv Hw Hr Hs Hvw.
  rewrite (c_projectSignedHash_eq v Hv) in Hr. rewrite (c_projectSignedHash_eq w Hw) in Hs.
  injection Hr as <-. injection Hs as <-.
  rewrite HR_val in *. change (2 * 1152921504606846975 - 1) with 2305843009213693949 in *. lia.
Qed.

Lemma psh_range_pre : forall r, - (HR - 1) <= r <= HR - 1 -> psh_pre r.
Proof. intros r. unfold psh_pre. rewrite HR_val. lia. Qed.

Theorem c_projectSignedHash_idem : forall v r, psh_pre v ->
  c_projectSignedHash v = Some r -> c_projectSignedHash r = Some r.
Proof.
  intros v r Hv Hr.
  destruct (c_projectSignedHash_spec v Hv) as (r' & Hr' & Hrange & _).
  rewrite Hr in Hr'. injection Hr' as <-.
  rewrite (c_projectSignedHash_eq r (psh_range_pre r Hrange)). f_equal.
  rewrite HR_val in *. change (2 * 1152921504606846975 - 1) with 2305843009213693949. lia.
Qed.

(* the callers apply the projection to 3*h, h+g, h-g for already projected h, g *)
Lemma project_args_in_range : forall h g, - HR < h < HR -> - HR < g < HR ->
  psh_pre (3 * h) /\ psh_pre (h + g) /\ psh_pre (h - g).
Proof. intros h g. unfold psh_pre. rewrite HR_val. lia. Qed.

(* the precondition is tight: one more and `value + RANGE_SIGNED_HASH` overflows *)
Lemma c_projectSignedHash_ub : c_projectSignedHash (9223372036854775807 - HR + 1) = None.
Proof. reflexivity. Qed.

(* ------------------------------------------------------------------------------------------------ *)
(* 4.  element encoding (include/cmr/element.h)                                                     *)

Theorem c_CMRrowToElement_spec : forall k, 0 <= k <= 2147483647 -> c_CMRrowToElement k = Some (-1 - k).
Proof. intros k Hk. unfold c_CMRrowToElement. unf. fin. Qed.

Theorem c_CMRcolumnToElement_spec : forall k, 0 <= k <= 2147483646 -> c_CMRcolumnToElement k = Some (1 + k).
Proof. intros k Hk. unfold c_CMRcolumnToElement. unf. fin. Qed.

(* the bounds are the largest possible *)
Lemma c_CMRrowToElement_ub : c_CMRrowToElement 2147483648 = None.
Proof. reflexivity. Qed.
Lemma c_CMRcolumnToElement_ub : c_CMRcolumnToElement 2147483647 = None.
Proof. reflexivity. Qed.

Theorem c_CMRelementIsRow_spec : forall e, int32 e -> c_CMRelementIsRow e = Some (if e <? 0 then 1 else 0).
Proof. intros e _. unfold c_CMRelementIsRow. unf. red1. destruct (e <? 0); reflexivity. Qed.

Theorem c_CMRelementIsColumn_spec : forall e, int32 e -> c_CMRelementIsColumn e = Some (if 0 <? e then 1 else 0).
Proof. intros e _. unfold c_CMRelementIsColumn. unf. red1. destruct (0 <? e); reflexivity. Qed.

Theorem c_CMRelementIsValid_spec : forall e, int32 e -> c_CMRelementIsValid e = Some (if e =? 0 then 0 else 1).
Proof. intros e _. unfold c_CMRelementIsValid. unf. red1. destruct (e =? 0); reflexivity. Qed.

Theorem c_CMRelementToRowIndex_spec : forall e, -2147483648 <= e < 0 -> c_CMRelementToRowIndex e = Some (-1 - e).
Proof. intros e He. unfold c_CMRelementToRowIndex. unf. fin. Qed.

Theorem c_CMRelementToColumnIndex_spec : forall e, 0 < e <= 2147483647 -> c_CMRelementToColumnIndex e = Some (e - 1).
Proof. intros e He. unfold c_CMRelementToColumnIndex. unf. fin. Qed.

Theorem c_CMRelementTranspose_spec : forall e, int32 e -> e <> -2147483648 -> c_CMRelementTranspose e = Some (- e).
Proof. intros e He Hm. unfold int32 in He. unfold c_CMRelementTranspose. unf. fin. Qed.

Lemma c_CMRelementTranspose_ub : c_CMRelementTranspose (-2147483648) = None.
Proof. reflexivity. Qed.

Corollary elements_roundtrip_row : forall k, 0 <= k <= 2147483647 ->
  exists e, c_CMRrowToElement k = Some e /\ c_CMRelementIsRow e = Some 1 /\ c_CMRelementIsColumn e = Some 0 /\
            c_CMRelementIsValid e = Some 1 /\ c_CMRelementToRowIndex e = Some k.
Proof.
  intros k Hk. exists (-1 - k).
  assert (He : int32 (-1 - k)) by (unfold int32; lia).
  rewrite (c_CMRrowToElement_spec k Hk), (c_CMRelementIsRow_spec _ He), (c_CMRelementIsColumn_spec _ He),
    (c_CMRelementIsValid_spec _ He), (c_CMRelementToRowIndex_spec (-1 - k)) by lia.
  destruct (Z.ltb_spec (-1 - k) 0); [|lia]. destruct (Z.ltb_spec 0 (-1 - k)); [lia|].
  destruct (Z.eqb_spec (-1 - k) 0); [lia|].
  repeat split; f_equal; lia.
Qed.

Corollary elements_roundtrip_column : forall k, 0 <= k <= 2147483646 ->
  exists e, c_CMRcolumnToElement k = Some e /\ c_CMRelementIsRow e = Some 0 /\ c_CMRelementIsColumn e = Some 1 /\
            c_CMRelementIsValid e = Some 1 /\ c_CMRelementToColumnIndex e = Some k.
Proof.
  intros k Hk. exists (1 + k).
  assert (He : int32 (1 + k)) by (unfold int32; lia).
  rewrite (c_CMRcolumnToElement_spec k Hk), (c_CMRelementIsRow_spec _ He), (c_CMRelementIsColumn_spec _ He),
    (c_CMRelementIsValid_spec _ He), (c_CMRelementToColumnIndex_spec (1 + k)) by lia.
  destruct (Z.ltb_spec (1 + k) 0); [lia|]. destruct (Z.ltb_spec 0 (1 + k)); [|lia].
  destruct (Z.eqb_spec (1 + k) 0); [lia|].
  repeat split; f_equal; lia.
Qed.

Corollary element_transpose_swaps : forall k, 0 <= k <= 2147483646 ->
  exists e e', c_CMRrowToElement k = Some e /\ c_CMRelementTranspose e = Some e' /\ c_CMRcolumnToElement k = Some e'.
Proof.
  intros k Hk. exists (-1 - k), (1 + k).
  rewrite (c_CMRrowToElement_spec k) by lia. rewrite (c_CMRcolumnToElement_spec k Hk).
  rewrite (c_CMRelementTranspose_spec (-1 - k)) by (unfold int32; lia).
  repeat split; f_equal; lia.
Qed.

(* and back: transposing a column element gives the row element of the same index *)
Corollary element_transpose_swaps_back : forall k, 0 <= k <= 2147483646 ->
  exists e e', c_CMRcolumnToElement k = Some e /\ c_CMRelementTranspose e = Some e' /\ c_CMRrowToElement k = Some e'.
Proof.
  intros k Hk. exists (1 + k), (-1 - k).
  rewrite (c_CMRrowToElement_spec k) by lia. rewrite (c_CMRcolumnToElement_spec k Hk).
  rewrite (c_CMRelementTranspose_spec (1 + k)) by (unfold int32; lia).
  repeat split; f_equal; lia.
Qed.

Print Assumptions c_moduloTernary_spec.
Print Assumptions c_moduloTernary_ub.
Print Assumptions c_moduloNonnegative_spec.
Print Assumptions c_moduloNonnegative_ub.
Print Assumptions c_projectSignedHash_eq.
Print Assumptions c_projectSignedHash_spec.
Print Assumptions c_projectSignedHash_canonical.
Print Assumptions c_projectSignedHash_idem.
Print Assumptions project_args_in_range.
Print Assumptions c_projectSignedHash_ub.
Print Assumptions c_CMRrowToElement_spec.
Print Assumptions c_CMRcolumnToElement_spec.
Print Assumptions c_CMRrowToElement_ub.
Print Assumptions c_CMRcolumnToElement_ub.
Print Assumptions c_CMRelementIsRow_spec.
Print Assumptions c_CMRelementIsColumn_spec.
Print Assumptions c_CMRelementIsValid_spec.
Print Assumptions c_CMRelementToRowIndex_spec.
Print Assumptions c_CMRelementToColumnIndex_spec.
Print Assumptions c_CMRelementTranspose_spec.
Print Assumptions c_CMRelementTranspose_ub.
Print Assumptions elements_roundtrip_row.
Print Assumptions elements_roundtrip_column.
Print Assumptions element_transpose_swaps.
Print Assumptions element_transpose_swaps_back.
