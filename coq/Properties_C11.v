(* Properties_C11.v — C11: the part of "no crash / no leak / scratch stack back at its pre-call level" that is logic:
   the LIFO scratch-stack allocator of env.c.  Statements closed by `exact`; proofs in StackProofs.v.
   What these theorems cannot exhibit (crashes, failed assertions, out-of-bounds and uninitialised accesses, heap
   leaks) is observed by the sanitized runs of tools/props/c11.py; see DESIGN.md. *)
From Cmr Require Import Base StackModel StackProofs.
Local Open Scope Z_scope.

(* allocating and then freeing restores the allocator state exactly (not just the usage figure) *)
Theorem C11_alloc_free_restores : forall dbg sz s s', Inv s -> s_alloc dbg sz s = Some s' -> s_free s' = Some s.
Proof. exact alloc_free. Qed.
Print Assumptions C11_alloc_free_restores.

(* every request below the allocator's own 1 TB assertion is served, whatever is on the stack *)
Theorem C11_alloc_total : forall dbg sz s, Inv s -> 0 <= sz < 2 ^ 40 -> exists s', s_alloc dbg sz s = Some s'.
Proof. exact alloc_total. Qed.
Print Assumptions C11_alloc_total.

(* the invariant (non-empty; current stack non-empty unless it is stack 0; positive chunks; every stack within its
   capacity) holds initially and is preserved by every run *)
Theorem C11_invariant : Inv s_init /\ forall dbg ops s s', Inv s -> s_run dbg ops s = Some s' -> Inv s'.
Proof. split; [exact Inv_init | exact run_Inv]. Qed.
Print Assumptions C11_invariant.

(* a call whose allocations and frees are well bracketed leaves the allocator exactly as it found it ... *)
Theorem C11_balanced_call_restores_stack : forall dbg ops s s', Inv s ->
  s_run dbg ops s = Some s' -> pending ops [] = Some [] -> s' = s /\ usage s' = usage s.
Proof.
  intros dbg ops s s' HI HR HP. split; [exact (balanced_restores dbg ops s s' HI HR HP)
                                      | exact (balanced_usage dbg ops s s' HI HR HP)].
Qed.
Print Assumptions C11_balanced_call_restores_stack.

(* ... and a call that leaves any chunk behind is visible in CMRgetStackUsage: comparing the usage before and after
   a call decides whether the stack is back at its pre-call level *)
Theorem C11_leak_is_visible_in_usage : forall dbg ops s s' p, Inv s ->
  s_run dbg ops s = Some s' -> pending ops [] = Some p -> p <> [] ->
  usage s < usage s' /\ usage s + used (map (chunk dbg) (rev p)) <= usage s'.
Proof.
  intros dbg ops s s' p HI HR HP Hn. split; [exact (leak_detected dbg ops s s' p HI HR HP Hn)
                                            | exact (leak_amount dbg ops s s' p HI HR HP)].
Qed.
Print Assumptions C11_leak_is_visible_in_usage.

(* on a fresh environment: usage 0 means the allocator is in its initial state *)
Theorem C11_usage_zero_is_initial : forall s, Inv s -> usage s = 0 -> s = s_init.
Proof. exact usage_zero_init. Qed.
Print Assumptions C11_usage_zero_is_initial.

(* whenever the extracted judge accepts the event trace of a case (every _CMRallocStack/_CMRfreeStack call with the
   value of CMRgetStackUsage after it): the trace is well bracketed, the model reproduces the implementation's usage
   after every single event, and the run ends in the initial state *)
Theorem C11_judge_stack_sound : forall rec, judge_stack rec = 0 ->
  exists dbg evs,
    (d <- dbool ;; ev <- dlist dev ;; dend (d, ev)) rec = Some ((dbg, evs), []) /\
    let ops := map op_of evs in
    Forall ev_ok evs /\ s_run dbg ops s_init = Some s_init /\ pending ops [] = Some [] /\
    usages_match dbg evs s_init.
Proof. exact judge_stack_sound. Qed.
Print Assumptions C11_judge_stack_sound.

(* non-vacuity: a trace with a second stack being opened and closed again *)
Example C11_example_trace :
  judge_stack [1; 4;  1; 100; 120;  1; 5000; 4096 + 5016;  2; 0; 120;  2; 0; 0] = 0.
Proof. vm_compute. reflexivity. Qed.

(* ---------- the judge accepts EXACTLY the records that satisfy its specification (JudgeComplete3.v): completeness besides soundness,
   a record of a correct answer is never rejected ---------- *)
From Cmr Require JudgeComplete3.
Theorem C11_judge_stack_accepts_exactly_the_specification :
    forall (rec : list Z) (dbg : bool) (evs : list (Z * Z * Z)) (rest : list Z),
    JudgeComplete3.stack_input rec = Some (dbg, evs, rest) ->
    StackModel.judge_stack rec = 0%Z <-> JudgeComplete3.stack_spec dbg evs.
Proof. exact JudgeComplete3.judge_stack_iff. Qed.
Print Assumptions C11_judge_stack_accepts_exactly_the_specification.
