(* BalancedProofs.v — the brute-force balancedness oracle of SpModel.v decides the textbook definition
   (no square submatrix, given by ANY pair of injective index lists, is a cycle matrix with entry sum
   = 2 mod 4); the certificate checker is sound; the judge accepts only correct answers. *)
From Cmr Require Import Base Det BaseProofs SpModel.
From Coq Require Import Permutation.
Local Open Scope Z_scope.

(* ------------------------------------------------------------------------------------------ *)
(* 0. Definitions                                                                               *)
(* ------------------------------------------------------------------------------------------ *)

Definition Balanced (m n : nat) (M : mat) : Prop :=
  forall rs cs, length rs = length cs -> all_lt m rs = true -> all_lt n cs = true ->
                nodupn rs = true -> nodupn cs = true ->
                bad_cycle (length rs) (submat M rs cs) = false.

Definition Balanced_inc (m n : nat) (M : mat) : Prop :=
  forall rs cs, length rs = length cs -> all_lt m rs = true -> all_lt n cs = true ->
                strictly_increasing rs = true -> strictly_increasing cs = true ->
                bad_cycle (length rs) (submat M rs cs) = false.

(* ------------------------------------------------------------------------------------------ *)
(* 1. Reflection of memn / nodupn / all_lt                                                      *)
(* ------------------------------------------------------------------------------------------ *)

Lemma memn_In : forall x l, memn x l = true <-> In x l.
Proof.
  intros x; induction l as [|y l IH]; simpl.
  - split; [discriminate | intros []].
  - rewrite orb_true_iff, IH, Nat.eqb_eq. split; intros [H|H]; auto.
Qed.

Lemma nodupn_NoDup : forall l, nodupn l = true <-> NoDup l.
Proof.
  induction l as [|x l IH]; simpl.
  - split; [constructor | reflexivity].
  - rewrite andb_true_iff, negb_true_iff, IH. split.
    + intros [H1 H2]. constructor; [|assumption]. intros HI. apply memn_In in HI. congruence.
    + intros H. inversion H as [|? ? H1 H2]; subst. split; [|assumption].
      destruct (memn x l) eqn:E; [|reflexivity]. apply memn_In in E. contradiction.
Qed.

Lemma all_lt_spec : forall m l, all_lt m l = true <-> (forall x, In x l -> (x < m)%nat).
Proof.
  intros m l. unfold all_lt. rewrite forallb_forall.
  split; intros H x Hx; specialize (H x Hx); now apply Nat.ltb_lt.
Qed.

(* ------------------------------------------------------------------------------------------ *)
(* 2. Strictly increasing lists with a lower bound; the enumeration subseqs k (iota s n)        *)
(* ------------------------------------------------------------------------------------------ *)

Fixpoint lb_sorted (lo : nat) (l : list nat) : Prop :=
  match l with [] => True | x :: r => (lo <= x)%nat /\ lb_sorted (S x) r end.

Lemma lb_sorted_weaken : forall l lo lo', (lo' <= lo)%nat -> lb_sorted lo l -> lb_sorted lo' l.
Proof.
  destruct l as [|a l]; simpl; intros lo lo' Hle H; [exact I|].
  destruct H as [H1 H2]. split; [lia | assumption].
Qed.

Lemma lb_sorted_In : forall l lo x, lb_sorted lo l -> In x l -> (lo <= x)%nat.
Proof.
  induction l as [|a l IH]; simpl; intros lo x H HI; [contradiction|].
  destruct H as [H1 H2]. destruct HI as [->|HI]; [assumption|].
  specialize (IH _ _ H2 HI). lia.
Qed.

Lemma lb_sorted_NoDup : forall l lo, lb_sorted lo l -> NoDup l.
Proof.
  induction l as [|a l IH]; simpl; intros lo H; constructor; destruct H as [_ H].
  - intros HI. pose proof (lb_sorted_In _ _ _ H HI). lia.
  - eapply IH; eassumption.
Qed.

Lemma lb_sorted_si : forall l lo,
  lb_sorted lo l <->
  strictly_increasing l = true /\ match l with [] => True | x :: _ => (lo <= x)%nat end.
Proof.
  induction l as [|a r IH]; intros lo.
  - simpl. split; auto.
  - change (lb_sorted lo (a :: r)) with ((lo <= a)%nat /\ lb_sorted (S a) r).
    rewrite (IH (S a)). destruct r as [|b r'].
    + simpl. split; [intros [H _]; auto | intros [_ H]; auto].
    + change (strictly_increasing (a :: b :: r'))
        with (Nat.ltb a b && strictly_increasing (b :: r')).
      rewrite andb_true_iff, Nat.ltb_lt. split.
      * intros [H1 [H2 H3]]. split; [split; [lia | assumption] | assumption].
      * intros [[H1 H2] H3]. split; [assumption | split; [assumption | lia]].
Qed.

Lemma si_lb_sorted0 : forall l, strictly_increasing l = true <-> lb_sorted 0 l.
Proof.
  intros l. rewrite (lb_sorted_si l 0%nat). split.
  - intros H. split; [assumption|]. destruct l; [exact I | lia].
  - intros [H _]. assumption.
Qed.

Lemma subseqs_iota_spec : forall n k s x,
  In x (subseqs k (iota s n)) <->
  length x = k /\ lb_sorted s x /\ (forall y, In y x -> (y < s + n)%nat).
Proof.
  induction n as [|n IHn]; intros k s x.
  - destruct k as [|k]; simpl.
    + split.
      * intros [<-|[]]. simpl. repeat split. intros y [].
      * intros (HL & _ & _). destruct x; [left; reflexivity | discriminate].
    + split; [intros [] |].
      intros (HL & HS & HR). destruct x as [|a x']; [discriminate|].
      simpl in HS. destruct HS as [Ha _]. specialize (HR a (or_introl eq_refl)). lia.
  - destruct k as [|k].
    + simpl. split.
      * intros [<-|[]]. simpl. repeat split. intros y [].
      * intros (HL & _ & _). destruct x; [left; reflexivity | discriminate].
    + change (subseqs (S k) (iota s (S n)))
        with (map (cons s) (subseqs k (iota (S s) n)) ++ subseqs (S k) (iota (S s) n)).
      rewrite in_app_iff, in_map_iff. split.
      * intros [[x' [<- Hx']] | Hx].
        -- apply IHn in Hx'. destruct Hx' as (HL & HS & HR). simpl.
           split; [lia|]. split; [split; [lia | assumption]|].
           intros y [<-|Hy]; [lia | specialize (HR y Hy); lia].
        -- apply IHn in Hx. destruct Hx as (HL & HS & HR).
           split; [assumption|]. split.
           ++ apply (lb_sorted_weaken x (S s) s); [lia | assumption].
           ++ intros y Hy; specialize (HR y Hy); lia.
      * intros (HL & HS & HR). destruct x as [|a x']; [discriminate|].
        simpl in HL. simpl in HS. destruct HS as [Ha HS].
        destruct (Nat.eq_dec a s) as [->|Hne].
        -- left. exists x'. split; [reflexivity|]. apply IHn.
           split; [lia|]. split; [assumption|].
           intros y Hy. specialize (HR y (or_intror Hy)). lia.
        -- right. apply IHn. split; [simpl; lia|]. split.
           ++ simpl. split; [lia | assumption].
           ++ intros y Hy; specialize (HR y Hy); lia.
Qed.

(* the enumeration used by the oracle: exactly the strictly increasing lists of length k below m *)
Lemma subseqs_iota0_spec : forall m k x,
  In x (subseqs k (iota 0 m)) <->
  length x = k /\ strictly_increasing x = true /\ all_lt m x = true.
Proof.
  intros m k x. rewrite subseqs_iota_spec, si_lb_sorted0, all_lt_spec. simpl. reflexivity.
Qed.

(* completeness of the enumeration, as a stand-alone statement *)
Lemma subseqs_complete : forall m k x,
  length x = k -> strictly_increasing x = true -> all_lt m x = true ->
  In x (subseqs k (iota 0 m)).
Proof. intros m k x H1 H2 H3. apply subseqs_iota0_spec. auto. Qed.

Lemma nodup_lt_length : forall m l,
  NoDup l -> (forall x, In x l -> (x < m)%nat) -> (length l <= m)%nat.
Proof.
  intros m l HN HR. rewrite <- (length_iota m 0). apply NoDup_incl_length; [assumption|].
  intros x Hx. apply in_iota. specialize (HR x Hx). lia.
Qed.

Lemma si_nodupn : forall l, strictly_increasing l = true -> nodupn l = true.
Proof.
  intros l H. apply nodupn_NoDup. apply si_lb_sorted0 in H. eapply lb_sorted_NoDup; eassumption.
Qed.

(* ------------------------------------------------------------------------------------------ *)
(* 3. Sorting an injective index list: the increasing list with the same elements               *)
(* ------------------------------------------------------------------------------------------ *)

Definition sort_idx (m : nat) (l : list nat) : list nat := filter (fun i => memn i l) (iota 0 m).

Lemma lb_sorted_filter_iota : forall (p : nat -> bool) n s, lb_sorted s (filter p (iota s n)).
Proof.
  intros p; induction n as [|n IH]; intros s; simpl; [exact I|].
  destruct (p s); simpl.
  - split; [lia | apply IH].
  - apply (lb_sorted_weaken _ (S s) s); [lia | apply IH].
Qed.

Lemma sort_idx_si : forall m l, strictly_increasing (sort_idx m l) = true.
Proof. intros m l. apply si_lb_sorted0. apply lb_sorted_filter_iota. Qed.

Lemma sort_idx_lt : forall m l, all_lt m (sort_idx m l) = true.
Proof.
  intros m l. apply all_lt_spec. intros x Hx. unfold sort_idx in Hx.
  apply filter_In in Hx. destruct Hx as [Hx _]. apply in_iota in Hx. lia.
Qed.

Lemma sort_idx_perm : forall m l,
  nodupn l = true -> all_lt m l = true -> Permutation l (sort_idx m l).
Proof.
  intros m l HN HR. apply nodupn_NoDup in HN. rewrite all_lt_spec in HR.
  apply NoDup_Permutation; [assumption | |].
  - apply (lb_sorted_NoDup _ 0%nat). apply lb_sorted_filter_iota.
  - intros x. unfold sort_idx. rewrite filter_In, in_iota, memn_In. split.
    + intros Hx. split; [specialize (HR x Hx); lia | assumption].
    + intros [_ Hx]; assumption.
Qed.

(* ------------------------------------------------------------------------------------------ *)
(* 4. bad_cycle of a submatrix in index form; invariance under permuting rows and columns       *)
(* ------------------------------------------------------------------------------------------ *)

Definition sumZ (l : list Z) : Z := fold_right Z.add 0 l.

Lemma count_nz_perm : forall v w, Permutation v w -> count_nz v = count_nz w.
Proof.
  unfold count_nz. induction 1 as [|x v w HP IH|x y v|u v w H1 IH1 H2 IH2]; simpl.
  - reflexivity.
  - destruct (negb (x =? 0)); simpl; congruence.
  - destruct (negb (x =? 0)), (negb (y =? 0)); simpl; reflexivity.
  - congruence.
Qed.

Lemma sumZ_perm : forall v w, Permutation v w -> sumZ v = sumZ w.
Proof.
  unfold sumZ. induction 1 as [|x v w HP IH|x y v|u v w H1 IH1 H2 IH2]; simpl.
  - reflexivity.
  - lia.
  - lia.
  - congruence.
Qed.

Lemma forallb_perm : forall (A : Type) (p : A -> bool) l l',
  Permutation l l' -> forallb p l = forallb p l'.
Proof.
  intros A p l l'. induction 1 as [|x v w HP IH|x y v|u v w H1 IH1 H2 IH2]; simpl.
  - reflexivity.
  - congruence.
  - destruct (p x), (p y); reflexivity.
  - congruence.
Qed.

Lemma forallb_map' : forall (A B : Type) (p : B -> bool) (g : A -> B) l,
  forallb p (map g l) = forallb (fun x => p (g x)) l.
Proof. intros A B p g; induction l as [|x l IH]; simpl; [reflexivity | now rewrite IH]. Qed.

Lemma forallb_ext_in : forall (A : Type) (p q : A -> bool) l,
  (forall x, In x l -> p x = q x) -> forallb p l = forallb q l.
Proof.
  intros A p q; induction l as [|x l IH]; simpl; intros H; [reflexivity|].
  rewrite (H x (or_introl eq_refl)). rewrite IH; [reflexivity|].
  intros y Hy. apply H. now right.
Qed.

Lemma iota_S : forall k s, iota (S s) k = map S (iota s k).
Proof. induction k as [|k IH]; intros s; simpl; [reflexivity|]. f_equal. apply IH. Qed.

Lemma map_nthR_iota : forall (B : Type) (N : mat) (h : list Z -> B),
  map (fun j => h (nthR N j)) (iota 0 (length N)) = map h N.
Proof.
  intros B; induction N as [|a N IH]; intros h; [reflexivity|].
  cbn [length iota map]. f_equal. rewrite iota_S, map_map. exact (IH h).
Qed.

Lemma map_nthn_iota : forall (l : list nat), map (nthn l) (iota 0 (length l)) = l.
Proof.
  induction l as [|a l IH]; [reflexivity|].
  cbn [length iota map]. f_equal. rewrite iota_S, map_map. exact IH.
Qed.

Lemma nthZ_map_nthn : forall (f : nat -> Z) cs i,
  (i < length cs)%nat -> nthZ (map f cs) i = f (nthn cs i).
Proof.
  intros f; induction cs as [|c cs IH]; intros i Hi; simpl in Hi; [lia|].
  destruct i; simpl; [reflexivity|]. apply IH. lia.
Qed.

Lemma submat_length : forall M rs cs, length (submat M rs cs) = length rs.
Proof. intros. unfold submat. apply map_length. Qed.

(* column i of a submatrix *)
Lemma col_submat : forall M rs cs i, (i < length cs)%nat ->
  map (fun j => get (submat M rs cs) j i) (iota 0 (length rs)) =
  map (fun a => get M a (nthn cs i)) rs.
Proof.
  intros M rs cs i Hi.
  pose proof (map_nthR_iota Z (submat M rs cs) (fun r => nthZ r i)) as E.
  rewrite submat_length in E.
  etransitivity; [exact E|].
  unfold submat. rewrite map_map. apply map_ext. intros a.
  apply (nthZ_map_nthn (fun j => get M a j)). assumption.
Qed.

(* "every row and every column of the submatrix has exactly two nonzeros", in index form *)
Definition line2 (M : mat) (rs cs : list nat) : bool :=
  forallb (fun a => Nat.eqb (count_nz (map (fun c => get M a c) cs)) 2) rs &&
  forallb (fun c => Nat.eqb (count_nz (map (fun a => get M a c) rs)) 2) cs.

Lemma two_per_line_submat : forall M rs cs, length rs = length cs ->
  two_per_line (length rs) (submat M rs cs) = line2 M rs cs.
Proof.
  intros M rs cs HL. unfold two_per_line, line2. f_equal.
  - unfold submat. rewrite forallb_map'. reflexivity.
  - unfold transpose, mk_mat. rewrite forallb_map'.
    transitivity (forallb (fun c => Nat.eqb (count_nz (map (fun a => get M a c) rs)) 2)
                          (map (nthn cs) (iota 0 (length cs)))).
    + rewrite forallb_map'. rewrite <- HL. apply forallb_ext_in.
      intros i Hi. apply in_iota in Hi. f_equal. f_equal.
      apply col_submat. lia.
    + rewrite map_nthn_iota. reflexivity.
Qed.

Lemma entry_sum_eq : forall N, entry_sum N = sumZ (map sumZ N).
Proof.
  unfold entry_sum, sumZ. induction N as [|r N IH]; simpl; [reflexivity | now rewrite IH].
Qed.

Lemma entry_sum_submat : forall M rs cs,
  entry_sum (submat M rs cs) = sumZ (map (fun a => sumZ (map (fun c => get M a c) cs)) rs).
Proof. intros. rewrite entry_sum_eq. unfold submat. rewrite map_map. reflexivity. Qed.

Lemma line2_perm : forall M rs rs' cs cs',
  Permutation rs rs' -> Permutation cs cs' -> line2 M rs cs = line2 M rs' cs'.
Proof.
  intros M rs rs' cs cs' Hr Hc. unfold line2. f_equal.
  - rewrite (forallb_perm _ _ _ _ Hr). apply forallb_ext_in. intros a _. f_equal.
    apply count_nz_perm. apply Permutation_map. assumption.
  - rewrite (forallb_perm _ _ _ _ Hc). apply forallb_ext_in. intros c _. f_equal.
    apply count_nz_perm. apply Permutation_map. assumption.
Qed.

Lemma entry_sum_perm : forall M rs rs' cs cs',
  Permutation rs rs' -> Permutation cs cs' ->
  entry_sum (submat M rs cs) = entry_sum (submat M rs' cs').
Proof.
  intros M rs rs' cs cs' Hr Hc. rewrite !entry_sum_submat.
  transitivity (sumZ (map (fun a => sumZ (map (fun c => get M a c) cs)) rs')).
  - apply sumZ_perm. apply Permutation_map. assumption.
  - f_equal. apply map_ext. intros a. apply sumZ_perm. apply Permutation_map. assumption.
Qed.

(* bad_cycle does not depend on the order in which the rows and columns are listed *)
Theorem bad_cycle_perm : forall M rs rs' cs cs',
  length rs = length cs -> Permutation rs rs' -> Permutation cs cs' ->
  bad_cycle (length rs) (submat M rs cs) = bad_cycle (length rs') (submat M rs' cs').
Proof.
  intros M rs rs' cs cs' HL Hr Hc.
  assert (HL' : length rs' = length cs').
  { rewrite <- (Permutation_length Hr), <- (Permutation_length Hc). assumption. }
  unfold bad_cycle. rewrite (two_per_line_submat M rs cs HL), (two_per_line_submat M rs' cs' HL').
  rewrite (line2_perm M rs rs' cs cs' Hr Hc), (entry_sum_perm M rs rs' cs cs' Hr Hc).
  reflexivity.
Qed.

(* ------------------------------------------------------------------------------------------ *)
(* 5. The oracle decides balancedness                                                           *)
(* ------------------------------------------------------------------------------------------ *)

Lemma balanced_bf_iff : forall m n M,
  balanced_bf m n M = true <->
  forall k rs cs, (1 <= k <= Nat.min m n)%nat ->
    In rs (subseqs k (iota 0 m)) -> In cs (subseqs k (iota 0 n)) ->
    bad_cycle k (submat M rs cs) = false.
Proof.
  intros m n M. unfold balanced_bf, balanced_order. rewrite forallb_forall. split.
  - intros H k rs cs Hk Hrs Hcs.
    assert (Hin : In k (iota 1 (Nat.min m n))) by (apply in_iota; lia).
    specialize (H k Hin). rewrite forallb_forall in H. specialize (H rs Hrs).
    rewrite forallb_forall in H. specialize (H cs Hcs). now apply negb_true_iff in H.
  - intros H k Hk. apply in_iota in Hk.
    apply forallb_forall. intros rs Hrs. apply forallb_forall. intros cs Hcs.
    apply negb_true_iff. apply H; [lia | assumption | assumption].
Qed.

Theorem balanced_bf_spec_inc : forall m n M, balanced_bf m n M = true <-> Balanced_inc m n M.
Proof.
  intros m n M. rewrite balanced_bf_iff. split.
  - intros H rs cs HL Hrm Hcn Hrs Hcs.
    destruct rs as [|r0 rs0].
    + destruct cs; [reflexivity | discriminate].
    + apply H.
      * split; [simpl; lia|].
        pose proof (si_nodupn _ Hrs) as Nr. pose proof (si_nodupn _ Hcs) as Nc.
        apply nodupn_NoDup in Nr. apply nodupn_NoDup in Nc.
        rewrite all_lt_spec in Hrm. rewrite all_lt_spec in Hcn.
        pose proof (nodup_lt_length m _ Nr Hrm) as L1.
        pose proof (nodup_lt_length n _ Nc Hcn) as L2.
        rewrite <- HL in L2. lia.
      * apply subseqs_complete; auto.
      * apply subseqs_complete; auto.
  - intros H k rs cs Hk Hrs Hcs.
    apply subseqs_iota0_spec in Hrs. apply subseqs_iota0_spec in Hcs.
    destruct Hrs as (L1 & S1 & R1). destruct Hcs as (L2 & S2 & R2).
    rewrite <- L1. apply H; auto. congruence.
Qed.

Theorem Balanced_inc_iff : forall m n M, Balanced_inc m n M <-> Balanced m n M.
Proof.
  intros m n M. split.
  - intros H rs cs HL Hrm Hcn Nr Nc.
    pose proof (sort_idx_perm m rs Nr Hrm) as Pr.
    pose proof (sort_idx_perm n cs Nc Hcn) as Pc.
    rewrite (bad_cycle_perm M rs (sort_idx m rs) cs (sort_idx n cs) HL Pr Pc).
    apply H.
    + rewrite <- (Permutation_length Pr), <- (Permutation_length Pc). assumption.
    + apply sort_idx_lt.
    + apply sort_idx_lt.
    + apply sort_idx_si.
    + apply sort_idx_si.
  - intros H rs cs HL Hrm Hcn Sr Sc. apply H; auto using si_nodupn.
Qed.

Theorem balanced_bf_spec : forall m n M, balanced_bf m n M = true <-> Balanced m n M.
Proof. intros m n M. rewrite balanced_bf_spec_inc. apply Balanced_inc_iff. Qed.

Corollary balanced_bf_false_spec : forall m n M, balanced_bf m n M = false <-> ~ Balanced m n M.
Proof.
  intros m n M. rewrite <- balanced_bf_spec. destruct (balanced_bf m n M); split; intros H.
  - discriminate.
  - exfalso; apply H; reflexivity.
  - intros H'; discriminate.
  - reflexivity.
Qed.

(* ------------------------------------------------------------------------------------------ *)
(* 6. Certificate soundness                                                                     *)
(* ------------------------------------------------------------------------------------------ *)

Theorem check_unbalanced_sound : forall m n M rs cs,
  check_unbalanced m n M rs cs = true -> ~ Balanced m n M.
Proof.
  intros m n M rs cs H HB. unfold check_unbalanced in H.
  repeat (apply andb_true_iff in H; destruct H as [H ?]).
  apply Nat.eqb_eq in H.
  rewrite (HB rs cs) in *; auto; discriminate.
Qed.

Corollary check_unbalanced_sound_inc : forall m n M rs cs,
  check_unbalanced m n M rs cs = true -> ~ Balanced_inc m n M.
Proof. intros m n M rs cs H HB. apply Balanced_inc_iff in HB. revert HB. eapply check_unbalanced_sound; eassumption. Qed.

Corollary check_unbalanced_bf : forall m n M rs cs,
  check_unbalanced m n M rs cs = true -> balanced_bf m n M = false.
Proof. intros m n M rs cs H. apply balanced_bf_false_spec. eapply check_unbalanced_sound; eassumption. Qed.

(* ------------------------------------------------------------------------------------------ *)
(* 7. Judge soundness                                                                           *)
(* ------------------------------------------------------------------------------------------ *)

Definition balanced_input :=
  alg <- dZ ;; sp <- dbool ;; ws <- dbool ;; x <- dmat ;; rc <- dZ ;; v <- dZ ;; sub <- dsubm ;;
  dend (alg, sp, ws, x, rc, v, sub).

Theorem judge_balanced_sound : forall rec alg sp ws m n M rc v sub rest,
  balanced_input rec = Some ((alg, sp, ws, (m, n, M), rc, v, sub), rest) ->
  judge_balanced rec = 0 ->
  (alg = 2 /\ rc <> 0) \/
  (rc = 0 /\ (v = 0 \/ v = 1) /\
   (is_ternary M = true ->
      (v = 1 <-> balanced_bf m n M = true) /\
      (v = 1 -> sub = None) /\
      (v = 0 -> ws = true ->
         exists rs cs, sub = Some (rs, cs) /\ check_unbalanced m n M rs cs = true) /\
      (v = 0 -> forall rs cs, sub = Some (rs, cs) -> check_unbalanced m n M rs cs = true)) /\
   (is_ternary M = false -> v = 0)).
Proof.
  intros rec alg sp ws m n M rc v sub rest Hdec HJ.
  unfold judge_balanced in HJ. unfold balanced_input in Hdec. rewrite Hdec in HJ.
  cbv beta iota in HJ.
  destruct (rc =? 0) eqn:Erc; cbn [negb andb] in HJ.
  2:{ destruct (alg =? 2) eqn:Ealg; cbn [negb andb] in HJ; [|discriminate].
      left. split; [now apply Z.eqb_eq | now apply Z.eqb_neq]. }
  rewrite andb_false_r in HJ. right. apply Z.eqb_eq in Erc. split; [assumption|].
  destruct (v =? 2) eqn:Ev2; [discriminate|].
  destruct (v =? 0) eqn:Ev0; destruct (v =? 1) eqn:Ev1; cbn [negb orb] in HJ; try discriminate.
  - apply Z.eqb_eq in Ev0. apply Z.eqb_eq in Ev1. lia.
  - (* v = 0 *)
    apply Z.eqb_eq in Ev0. apply Z.eqb_neq in Ev1. split; [left; assumption|].
    split; [|intros _; assumption].
    intros Htern. rewrite Htern in HJ. cbn [negb] in HJ.
    destruct (balanced_bf m n M) eqn:Ebf; cbn [Bool.eqb negb] in HJ; [discriminate|].
    split; [split; [intros; lia | discriminate]|].
    split; [intros; lia|].
    destruct sub as [[rs cs]|].
    + destruct (check_unbalanced m n M rs cs) eqn:Echk; [|discriminate].
      split.
      * intros _ _. exists rs, cs. split; [reflexivity | assumption].
      * intros _ rs' cs' E. inversion E; subst. assumption.
    + destruct ws; [discriminate|]. split.
      * intros _ Hws; discriminate.
      * intros _ rs cs E; discriminate.
  - (* v = 1 *)
    apply Z.eqb_neq in Ev0. apply Z.eqb_eq in Ev1. split; [right; assumption|].
    destruct (is_ternary M) eqn:Etern; cbn [negb] in HJ; [|discriminate].
    split; [|intros; discriminate]. intros _.
    destruct (balanced_bf m n M) eqn:Ebf; cbn [Bool.eqb negb] in HJ; [|discriminate].
    split; [split; auto|].
    split; [|split; intros; lia].
    intros _. destruct sub; [discriminate | reflexivity].
Qed.

(* the same statement with the oracle replaced by the definition it decides *)
Corollary judge_balanced_sound_spec : forall rec alg sp ws m n M rc v sub rest,
  balanced_input rec = Some ((alg, sp, ws, (m, n, M), rc, v, sub), rest) ->
  judge_balanced rec = 0 -> rc = 0 -> is_ternary M = true ->
  (v = 0 \/ v = 1) /\ (v = 1 <-> Balanced m n M) /\
  (forall rs cs, sub = Some (rs, cs) -> v = 0 /\ check_unbalanced m n M rs cs = true).
Proof.
  intros rec alg sp ws m n M rc v sub rest Hdec HJ Hrc Htern.
  destruct (judge_balanced_sound _ _ _ _ _ _ _ _ _ _ _ Hdec HJ) as [[_ H]|(_ & Hv & HT & _)];
    [contradiction|].
  destruct (HT Htern) as (H1 & H2 & _ & H4).
  split; [assumption|]. split; [rewrite <- balanced_bf_spec; assumption|].
  intros rs cs E. destruct Hv as [Hv|Hv].
  - split; [assumption|]. now apply H4.
  - rewrite (H2 Hv) in E. discriminate.
Qed.

(* ------------------------------------------------------------------------------------------ *)
(* 8. Non-vacuity                                                                               *)
(* ------------------------------------------------------------------------------------------ *)

Example ex_odd_cycle : balanced_bf 3 3 [[1;1;0];[0;1;1];[1;0;1]] = false.
Proof. vm_compute. reflexivity. Qed.

Example ex_signed_cycle : balanced_bf 3 3 [[1;1;0];[0;1;1];[-1;0;1]] = true.
Proof. vm_compute. reflexivity. Qed.

Example ex_2x2 : balanced_bf 2 2 [[1;1];[1;-1]] = false.
Proof. vm_compute. reflexivity. Qed.

Example ex_cert :
  check_unbalanced 3 3 [[1;1;0];[0;1;1];[1;0;1]] [0;1;2]%nat [0;1;2]%nat = true.
Proof. vm_compute. reflexivity. Qed.

(* a certificate listed in non-increasing order is accepted as well *)
Example ex_cert_perm :
  check_unbalanced 3 3 [[1;1;0];[0;1;1];[1;0;1]] [2;0;1]%nat [1;2;0]%nat = true.
Proof. vm_compute. reflexivity. Qed.

Print Assumptions balanced_bf_spec.
Print Assumptions balanced_bf_spec_inc.
Print Assumptions bad_cycle_perm.
Print Assumptions check_unbalanced_sound.
Print Assumptions check_unbalanced_sound_inc.
Print Assumptions judge_balanced_sound.
Print Assumptions judge_balanced_sound_spec.
