(* judge.ml — glue around the extracted Coq judges.
   usage: judge <api>   reads one record per line (integers separated by blanks) on stdin and prints
   one integer verdict code per line (0 = the extracted judge accepted the record).
   Everything that decides anything lives in the extracted module Cmr_model; this file only
   converts decimal tokens to the extracted Z type and back. *)
type str = string   (* OCaml's string: the extracted module defines Coq's `string` inductive under the same name *)
module Str_ = String
open Cmr_model

let rec pos_of_int n =
  if n = 1 then XH
  else if n land 1 = 0 then XO (pos_of_int (n lsr 1))
  else XI (pos_of_int (n lsr 1))

let z_of_int n =
  if n = 0 then Z0 else if n > 0 then Zpos (pos_of_int n) else Zneg (pos_of_int (- n))

(* decimal token of arbitrary length, via the extracted Z arithmetic for long tokens *)
let z_of_token (s : str) : z =
  if Str_.length s <= 17 then z_of_int (int_of_string s)
  else begin
    let neg = s.[0] = '-' in
    let start = if neg || s.[0] = '+' then 1 else 0 in
    let acc = ref Z0 in
    let ten = z_of_int 10 in
    for i = start to Str_.length s - 1 do
      let d = Char.code s.[i] - 48 in
      if d < 0 || d > 9 then failwith ("bad token " ^ s);
      acc := Z.add (Z.mul !acc ten) (z_of_int d)
    done;
    if neg then Z.opp !acc else !acc
  end

let rec int_of_pos = function
  | XH -> 1
  | XO p -> 2 * int_of_pos p
  | XI p -> 2 * int_of_pos p + 1

let int_of_z = function
  | Z0 -> 0
  | Zpos p -> int_of_pos p
  | Zneg p -> - (int_of_pos p)

let split_line (l : str) : z list =
  let toks = Str_.split_on_char ' ' l in
  List.filter_map (fun t -> if t = "" then None else Some (z_of_token t)) toks

let table : (str * (z list -> z)) list = [
  ("ctu_compl", judge_ctu_compl);
  ("ctu_test", judge_ctu_test);
  ("pivot", judge_pivot);
  ("tu", judge_tu);
  ("tu_cert", judge_tu_cert);
  ("regular", judge_regular);
  ("sp", judge_sp);
  ("balanced", judge_balanced);
  ("graphic", judge_graphic);
  ("network", judge_network);
  ("repmat", judge_repmat);
  ("camion", judge_camion);
  ("kcompose", judge_kcompose);
  ("kdecomp", judge_kdecomp);
  ("tree", judge_tree);
  ("textread", judge_textread);
  ("textwrite", judge_textwrite);
  ("rel", judge_rel);
  ("stack", judge_stack);
  ("tlimit", judge_tlimit);
  ("hist", judge_hist);
  ("threads", judge_threads);
  ("equimod", judge_equimod);
  ("matutil", judge_matutil);
  ("edgelist", judge_edgelist);
  ("climat", judge_climat);
  ("cligraph", judge_cligraph);
  ("climatd", judge_climatd);
  ("cligraphout", judge_cligraphout);
  ("clisub", judge_clisub);
  ("clictu", judge_clictu);
  ("leaf", judge_leaf);
  ("reprt", judge_reprt);
  ("tu_net", judge_tu_net);
  ("regular_cert", judge_regular_cert);
  ("equi_cert", judge_equi_cert);
  ("balanced_cert", judge_balanced_cert);
  ("camion_cert", judge_camion_cert);
  ("cliverdict", judge_cliverdict);
]

let () =
  let api = Sys.argv.(1) in
  let f = try List.assoc api table with Not_found -> (prerr_endline ("unknown api " ^ api); exit 2) in
  try
    while true do
      let l = input_line stdin in
      if Str_.length l > 0 then begin
        let code = int_of_z (f (split_line l)) in
        print_string (string_of_int code); print_char '\n'
      end
    done
  with End_of_file -> ()
